"""C04 deletion leaves no dangling reference and harms nothing else.
Spec: NixFile.tla (Delete = Prune of the owned subtree; invariants NoDangling, action property DeleteFrame).
Binding: every Delete transition of the bounded link-graph universes (victim x by name / id / handle) is executed and the
complete observation (all surviving entities, all containers, all single links, all retained handles) compared."""
import file_common

def run(chk, replay=None):
    if replay is not None and replay.get('m') == 'trace':
        return file_common.run_traces(chk, lambda e: e['a'] == 'Delete', 1, 0, replay=replay)
    t = 't' if chk.thorough else 'q'
    cfgs = ['c04%s_%s' % (x, t) for x in 'abcdefgh']
    sims = [('all', 3000 if chk.thorough else 150, 30)]
    judge = lambda r: r['step']['a'] == 'Delete'
    chk.rule = ('one case per Delete transition (victim x by-name/id/handle) of every reachable link graph in 7 bounded universes '
                '(tags/multi-tags/features/references; sections/sources/groups/metadata/links; frames/groups/dimensions; nested '
                'sources+sections+properties; with close/reopen in between), BFS exhaustive, plus Delete steps of random behaviours over '
                'the whole vocabulary; non-trivial = distinct (history, step)')
    file_common.run_file_check(chk, cfgs, sims, judge=judge, replay=replay, coverage=['Delete', 'pre:AddLink', 'pre:SetOne', 'pre:AppendDim'])
    # very long names are always exercised (HDF5 paths beyond any fixed buffer: 200-byte names nest to paths of 400-600 bytes)
    if chk.seed % 6 != 5:
        file_common.run_file_check(chk, ['c04c_' + t, 'c04b_' + t], [], judge=judge, opts={'names': 5})
    # direction B: random API programs recorded from the real library, validated against NixFileTrace.tla
    file_common.run_traces(chk, lambda e: e['a'] == 'Delete', 24 if chk.thorough else 6, 1500 if chk.thorough else 400)
    chk.exhaustive = False
