"""NixDims.tla -> emitted transitions -> nixreplay 'dims' handler (C13; rejected steps also C08)."""
import vcheck
PARTS = {'a': {'rank': 2, 'numeric': True}, 'b': {'rank': 1, 'numeric': True}, 'c': {'rank': 1, 'numeric': False}}

def run_dims(chk, judge=None, replay=None, c08=False):
    """c08=True: every line is executed, but only calls the library REJECTS are judged (whatever the specification expected):
    predicted rejections in full, unexpected ones by 'the state is what it was before the call'"""
    binary = vcheck.ensure_build('plain')
    if replay is not None:
        rp = vcheck.Replayer(binary, seed=chk.seed, opts=replay.get('_opts', PARTS['a']))
        v = rp.single(replay)
        chk.judged(replay)
        if v.get('v') != 'ok':
            chk.disagreement(replay, v, rp)
        return
    t = 't' if chk.thorough else 'q'
    for part, o in PARTS.items():
        if c08:
            o = dict(o, c08_only=True)
        rp = vcheck.Replayer(binary, seed=chk.seed, opts=o, chunk=200)
        run = vcheck.TlcRun('NixDims', 'MC_NixDims_%s_%s.cfg' % (part, t), workers=8, coverage=False)
        def src():
            for r in run:
                if judge is None or judge(r):
                    r['_opts'] = o
                    yield r
        recs, verdicts = rp.run(src())
        run.require_ok()
        if run.lines == 0:
            raise vcheck.MachineryError('no transition emitted by NixDims ' + part)
        chk.note_tlc(run)
        if c08:      # an accepted call, or a call rejected without a trace where the specification expected success, is not C08's business
            verdicts = [v for v in verdicts if v.get('c08') or recs.get(v.get('i'), {}).get('step', {}).get('res') == 'reject' or v.get('v') not in ('ok', 'mismatch', 'unjudgeable')]
        chk.absorb(recs, verdicts, rp)
    chk.exhaustive = True
    # long random histories (beyond the BFS depth): descriptor lists appended / emptied / edited many times on the same array
    for part in ('a', 'b'):
        o = dict(PARTS[part], c08_only=True) if c08 else PARTS[part]
        rp = vcheck.Replayer(binary, seed=chk.seed, opts=o, chunk=100)
        vcheck.absorb_sim(chk, rp, 'NixDims', 'MC_NixDims_%s_sim.cfg' % part, 400 if chk.thorough else 40, 24, judge=(lambda r: r['step']['res'] == 'reject') if c08 else judge, tag={'_opts': o})
    chk.traces_validated = len(chk.distinct)
    chk.assumptions += ['descriptor scalars are abstract codes mapped to fixed concrete values (2 good + bad values per field)', 'trusted: TLC, harness/h_dims.cpp']
