"""C16 no API call sequence causes undefined behaviour; misuse throws.
Level: exploration (not model checking): the specification supplies the programs and the state coverage, undefined behaviour is
detected by AddressSanitizer + UndefinedBehaviorSanitizer on the executions actually run.  Programs: (1) the out-of-contract case table
of NixMisuse.tla (uninitialised / deleted / closed handles of every kind, indices past the end of every indexed getter, wrong ranks,
counts and offsets outside the data, empty containers, NaN / inf / huge / empty arguments); (2) the lines emitted by the specifications of
the other properties (histories of NixFile incl. rejected calls and crash / reopen, retrieval, data I/O, dimensions, properties, frames,
validator, units), a seed-dependent sample in the quick tier, all of the quick configurations in the thorough tier.
Verdict: a crash, signal or sanitizer report of the replayer is a violation; a disagreement with another property's oracle is not."""
import vcheck, json
LEVEL = 'exploration'

def stream(module, cfg, stride, seed, judge=None, **kw):
    run = vcheck.TlcRun(module, cfg, workers=8, coverage=False, **kw)
    n = 0
    for r in run:
        if judge is not None and not judge(r):
            continue
        n += 1
        if (n + seed) % stride == 0:
            yield r
    if not run.ok():
        raise vcheck.MachineryError('TLC failed on %s: %s' % (cfg, run.errors[:3]))

def run(chk, replay=None):
    binary = vcheck.ensure_build('asan')
    env = {'ASAN_OPTIONS': 'detect_leaks=0:abort_on_error=1:handle_abort=1:allocator_may_return_null=1', 'UBSAN_OPTIONS': 'print_stacktrace=1:halt_on_error=1'}
    def rp(opts=None, chunk=40):
        return vcheck.Replayer(binary, seed=chk.seed, opts=opts or {}, chunk=chunk, env=env, timeout_per_line=120)
    def take(recs, verdicts, r):
        for v in verdicts:
            rec = recs.get(v.get('i'))
            if rec is None:
                continue
            chk.judged(rec, n=v.get('n', 1))
            if v.get('v') == 'crash':
                v2 = r.single(rec) if len(chk.violations) < 3 else v
                if v2.get('v') == 'crash':
                    v2['what'] = 'replayer died: rc=%s %s' % (v2.get('rc'), (v2.get('stderr') or '')[-1500:].strip().split('\n')[0:1])
                    f = chk.match_known(rec, v2)
                    if f is not None:
                        chk.known_hits.setdefault(f['id'], [f, 0])[1] += 1
                    else:
                        chk.violations.append((rec, v2))
            elif v.get('v') in ('harness_exception', 'nohandler', 'badline'):
                raise vcheck.MachineryError('replayer verdict %r' % v)
    if replay is not None:
        o = replay.pop('_opts', {})
        r = rp(o)
        take({0: replay}, [dict(r.single(replay), i=0)], r)
        return
    S = 1 if chk.thorough else 12           # stride of the sample of the other modules' lines
    plan = [
        ('NixMisuse', 'MC_NixMisuse.cfg', 1, {}, None),
        ('NixFile', 'MC_NixFile_c04a_q.cfg', S, {'names': chk.seed, 'ballast': 0}, None),
        ('NixFile', 'MC_NixFile_c08a_q.cfg', S, {'names': chk.seed, 'reopen_check': True, 'ballast': 0}, None),
        ('NixFile', 'MC_NixFile_c11a_q.cfg', S, {'names': chk.seed, 'ballast': 0}, None),
        ('NixFile', 'MC_NixFile_c02g_q.cfg', max(1, S // 4), {'names': chk.seed, 'ballast': 0}, None),
        ('NixFile', 'MC_NixFile_c20c_q.cfg', S * 4, {'names': chk.seed, 'ignore_handles': True, 'ballast': 0}, None),
        ('MC_NixRetrieval', 'MC_NixRetrieval_tag1.cfg', S, {'axes': 'quick'}, None),
        ('MC_NixRetrieval', 'MC_NixRetrieval_slice.cfg', S, {'axes': 'quick'}, None),
        ('MC_NixRetrieval', 'MC_NixRetrieval_multi.cfg', max(1, S // 2), {'axes': 'quick'}, None),
        ('NixData', 'MC_NixData_r2_q.cfg', max(1, S // 2), {'types': ['Double', 'String', 'Int8', 'Bool'], 'compressions': ['None']}, None),
        ('NixData', 'MC_NixData_r3_q.cfg', max(1, S // 2), {'types': ['UInt64', 'String'], 'compressions': ['Deflate']}, None),
        ('NixData', 'MC_NixData_view2_q.cfg', max(1, S // 2), {'types': ['Float', 'String'], 'compressions': ['None']}, None),
        ('NixDims', 'MC_NixDims_a_q.cfg', S, {'rank': 2, 'numeric': True}, None),
        ('NixDims', 'MC_NixDims_b_q.cfg', S, {'rank': 1, 'numeric': True}, None),
        ('NixProp', 'MC_NixProp_q.cfg', S * 2, {}, None),
        ('NixFrame', 'MC_NixFrame_q.cfg', max(1, S // 2), {'cols': 2}, None),
        ('NixValid', 'MC_NixValid_q.cfg', 1, {}, None),
        ('NixValid', 'MC_NixValid_hist_q.cfg', max(1, S // 3), {}, None),
        ('NixTime', 'MC_NixTime_q.cfg', 1, {}, None),
        ('MC_NixUnits', 'MC_NixUnits_reject.cfg', S * 20, {}, None),
        ('NixAxis', 'MC_NixAxis.cfg', S * 4, {'axes': 'quick'}, None),
        ('MC_NixVersion', 'MC_NixVersion.cfg', S * 4, {}, None),
    ]
    per = {}
    for (module, cfg, stride, opts, judge) in plan:
        r = rp(opts)
        def src():
            for x in stream(module, cfg, stride, chk.seed, judge):
                x['_opts'] = opts
                yield x
        recs, verdicts = r.run(src())
        before = chk.evaluations
        take(recs, verdicts, r)
        per[cfg] = len(recs)
    chk.extra['programs_per_source'] = per
    chk.extra['sanitizers'] = 'AddressSanitizer + UndefinedBehaviorSanitizer (-fno-sanitize-recover=undefined), library and harness instrumented, HDF5 not'
    chk.rule = ('programs = every case of the NixMisuse table (8 misuse classes x entity kinds x variants) plus %s of the lines emitted by 21 configurations of '
                'the other specification modules, each executed in the ASan+UBSan build; non-trivial = distinct program; a program passes iff the replayer '
                'survives it (exception or normal return)') % ('all' if chk.thorough else 'a 1-in-%d sample (by seed)' % S)
    chk.assumptions += ['HDF5 itself is not instrumented: memory errors inside libhdf5 caused by wrong arguments are only seen if they crash',
                        'leaks are not counted as undefined behaviour', 'exploration only: programs that are not generated are not judged']
