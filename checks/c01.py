"""C01 array data round trip.
Spec: NixData.tla (WriteSlab / SetAll / AppendData / SetExtent / SetPoly / SetOrigin / Reopen; SlabFrame, GrowReadsZero,
AppendKeeps, RawUnaffected, RejectFrame checked by TLC).  Binding: every transition of the bounded history graphs is executed
for each element type and compression; after the judged step the whole array and EVERY rectangular sub-region are read back raw
(getDataDirect, getData), calibrated / cross-type as Double, Int64, Int32, and compared with the specification's content."""
import data_common

def run(chk, replay=None):
    chk.rule = ('one case per transition of all histories (BFS, exhaustive within: rank 1 ext<=3 depth 4, rank 2 ext<=2 depth 3, rank 3 ext<=2 depth 2; '
                'thorough: deeper + rank 4) over hyperslab writes (inside / touching / crossing the extent), whole-array set, append, grow, shrink, '
                'calibration, reopen (rw and ro); each executed per element type x compression; evaluations = region reads, distinct = transitions')
    data_common.run_data(chk, ['array'], replay=replay)
