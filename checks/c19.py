"""C19 validator accepts every rule-conforming file and flags every hard-rule breach.
Spec: NixValid.tla (rule table: breach -> hard/soft and the entity that must carry the error; Sound, SoftNeverError, Complete checked
by TLC over every breach subset; HistoryFree, RepairRestores over in-place edit histories).  Binding: for every subset the harness builds the conforming base file (arrays of rank 1-2 with all four
descriptor kinds, tag, multi-tag, features, section + property; data lengths vary with the seed), injects the breaches through the API or -
where the API refuses them - through the HDF5 C API, runs valid::validate on every entity and File::validate, and compares per entity
'has at least one error' (message texts are not compared) and, for every soft-rule breach present, 'the entity and the file carry at least
one warning' (SoftWarns; warnings of entities without a soft breach are not judged)."""
import vcheck

def run(chk, replay=None):
    binary = vcheck.ensure_build('plain')
    if replay is not None:
        rp = vcheck.Replayer(binary, seed=chk.seed)
        v = rp.single(replay); chk.judged(replay, n=v.get('n', 1))
        if v.get('v') != 'ok':
            chk.disagreement(replay, v, rp)
        return
    seeds = range(3) if chk.thorough else [chk.seed]
    for sd in seeds:
        rp = vcheck.Replayer(binary, seed=sd, chunk=20)
        for cfg in ('', 'hist_'):
            if cfg == 'hist_' and sd != list(seeds)[0]:
                continue
            run_ = vcheck.TlcRun('NixValid', 'MC_NixValid_%s%s.cfg' % (cfg, 't' if chk.thorough else 'q'), workers=8, coverage=False)
            recs, verdicts = rp.run(r for r in run_)
            run_.require_ok()
            if run_.lines == 0:
                raise vcheck.MachineryError('no case emitted by NixValid')
            chk.note_tlc(run_)
            chk.absorb(recs, verdicts, rp)
    chk.exhaustive = True
    chk.traces_validated = len(chk.distinct)
    chk.rule = ('(1) one case per subset of <= %d breaches out of 19 hard + 7 soft rule breaches injected at specific entities of the base file (all subsets, '
                'incompatible pairs excluded); (2) one case per Validate transition of every history of <= %d in-place steps (inject / repair / reopen / validate, '
                'same process, same entity ids) - the verdict must depend on the breaches present only; evaluations = entity validations; compared: per entity '
                '"has an error", and File::validate().hasErrors(), at every validation of the history; for every soft-rule breach present the entity '
                '(and File::validate()) must carry a warning') % ((4, 5) if chk.thorough else (3, 4))
    chk.assumptions += ['one base-file shape (3 length variants by seed); message texts are not compared, only the presence of errors per entity and of warnings for soft-rule breaches',
                        'trusted: TLC, harness/h_valid.cpp, HDF5 C API for the breaches the API refuses (unsorted ticks, interval <= 0, missing positions)']
