"""C14 metadata property values round trip with type, order, unit and uncertainty.
Spec: NixProp.tla (Assign / Clear / SetUnit / SetUnc / SetDef / Reopen for every value type and every createProperty overload;
ReadsLastAssigned, CountFollows, OthersKeep, TypeStable, RejectFrame checked by TLC).  Binding: every transition is executed on a
real Property; value sequences are stretched to 0/1/2/7/8/9/64 elements of extremes, NaN/inf, empty/long/UTF-8 strings; values,
count, type, unit, uncertainty, definition are compared in the session and after close + reopen."""
import vcheck

def run(chk, replay=None):
    binary = vcheck.ensure_build('plain')
    rp = vcheck.Replayer(binary, seed=chk.seed, chunk=200)
    if replay is not None:
        v = rp.single(replay); chk.judged(replay)
        if v.get('v') != 'ok':
            chk.disagreement(replay, v, rp)
        return
    seeds = range(4) if chk.thorough else [chk.seed]
    for sd in seeds:
        rp = vcheck.Replayer(binary, seed=sd, chunk=200)
        run_ = vcheck.TlcRun('NixProp', 'MC_NixProp_%s.cfg' % ('t' if chk.thorough else 'q'), workers=8, coverage=False)
        recs, verdicts = rp.run(r for r in run_)
        run_.require_ok()
        if run_.lines == 0:
            raise vcheck.MachineryError('no transition emitted by NixProp')
        chk.note_tlc(run_)
        chk.absorb(recs, verdicts, rp)
    chk.exhaustive = True
    vcheck.absorb_sim(chk, rp, 'NixProp', 'MC_NixProp_sim.cfg', 400 if chk.thorough else 40, 14)
    chk.traces_validated = len(chk.distinct)
    chk.rule = ('one case per transition of all assign / replace / clear / unit / uncertainty / definition / reopen histories (depth 2 quick, 3 thorough) for '
                'each of 7 value types x 3 creation overloads, incl. vectors with a wrong-typed value at every position; lengths stretched by seed')
    chk.assumptions += ['values of a property created by type only are not asserted before the first assignment',
                        'value dictionaries per type (extremes, NaN/inf, denormal, empty/300-byte/UTF-8 strings); trusted: TLC, harness/h_prop.cpp']
