"""C18 unit scaling is exact, reciprocal and transparent to retrieval.
Spec: NixUnits.tla (Text / Scalable / ScaleExp; Reciprocal, Compose, Symmetric, Identity, Unambiguous as ASSUME over all prefixes and
powers) and NixRetrieval.tla (retrieval invariance).  Binding: (1) every pair of prefixes x every base unit x every power, pairs with
different base / power, non-SI strings -> splitUnit, isSIUnit, isScalable (both directions), getSIScaling vs 10^k (rel. 1e-12), reciprocity,
composition through a third prefix; (2) the C05/C06/C17 case tables replayed with the dimension unit 's' and the request in a prefixed unit
with numerically rescaled values (only requests whose rescaling is exact in binary floating point) - must select the same elements."""
import vcheck, retr_common

PFX = [('ms', 1000.0, 0.001), ('ks', 0.001, 1000.0), ('us', 1e6, 1e-6), ('Ms', 1e-6, 1e6)]
# the same case under several (dimension unit, request unit) pairs one after the other in one process, each pair in both directions
# and for base units whose symbol is also a prefix letter (m, T): a conversion must not depend on earlier conversions
def pairs_for(u, S, f):
    pre = u[:-1]
    return [['s', u, S, f], ['m', pre + 'm', S, f], [pre + 'm', 'm', f, S], ['m', pre + 'm', S, f], (['km', pre + 'm', S * 1e3, f * 1e-3] if pre != 'k' else ['Mm', pre + 'm', S * 1e6, f * 1e-6])]

def run(chk, replay=None):
    binary = vcheck.ensure_build('plain')
    if replay is not None and replay.get('m') == 'units':
        rp = vcheck.Replayer(binary, seed=chk.seed)
        v = rp.single(replay); chk.judged(replay, n=v.get('n', 1))
        if v.get('v') != 'ok':
            chk.disagreement(replay, v, rp)
        return
    rp = vcheck.Replayer(binary, seed=chk.seed, chunk=2000)
    for t in ['pairs', 'reject']:
        run_ = vcheck.TlcRun('MC_NixUnits', 'MC_NixUnits_%s.cfg' % t, workers=8, coverage=False)
        recs, verdicts = rp.run(r for r in run_)
        run_.require_ok()
        if run_.lines == 0:
            raise vcheck.MachineryError('no case emitted by NixUnits ' + t)
        chk.note_tlc(run_)
        chk.absorb(recs, verdicts, rp)
    # retrieval invariance
    prefixes = PFX if chk.thorough else [PFX[chk.seed % 4]]
    for (u, S, f) in prefixes:
        rp2 = vcheck.Replayer(binary, seed=chk.seed, opts={'axes': 'quick', 'dim_unit': 's', 'tag_unit': u, 'scale': S, 'factor': f, 'unit_pairs': pairs_for(u, S, f)}, chunk=80, timeout_per_line=60)
        for t in (['tag1', 'tagn', 'slice', 'multi'] if chk.thorough else ['tag1', 'slice', 'multi']):
            run_ = vcheck.TlcRun('MC_NixRetrieval', 'MC_NixRetrieval_%s.cfg' % t, workers=8, coverage=False)
            recs, verdicts = rp2.run(r for r in run_)
            run_.require_ok()
            chk.note_tlc(run_)
            # deviations of unspecified dimensions belong to C05 / C06, not to unit scaling
            chk.absorb(recs, verdicts, rp2)
    r = vcheck.apalache_laws('NixUnitLaws')
    chk.extra['apalache_unbounded_laws'] = r
    if r == 'Error':
        raise vcheck.MachineryError('Apalache refutes the exponent laws of the specification')
    chk.exhaustive = True
    chk.traces_validated = len(chk.distinct)
    chk.extra['request_unit_prefixes'] = [p[0] for p in prefixes]
    chk.rule = ('units: all 21x21 prefix pairs x 31 base units x 7 powers (scalable), sampled different-base / different-power pairs and non-SI '
                'strings (rejected); retrieval: the tag / slice / multi-tag case tables with requests in a prefixed unit (prefix by seed; all 4 in thorough), each case under 4 (dimension unit, request unit) pairs in one process: s/prefixed-s, m/prefixed-m, the mirrored pair, and the first again')
    chk.assumptions += ['factors are compared with the correctly rounded 10^k with relative tolerance 1e-12 (the property is about the exponent)',
                        'retrieval invariance uses only requests whose rescaling is exact in binary floating point (checked per request)',
                        'trusted: TLC, harness/h_units.cpp, harness/h_retr.cpp']
