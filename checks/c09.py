"""C09 open modes: ReadOnly never writes, ReadWrite preserves, Overwrite empties; header defects refused.
Spec: NixFile.tla (ReadOnlyFrame, ReadOnlyRejects: in a ro session every mutator is Reject and disk is unchanged) and
NixVersion.tla (header defects, absent file, Overwrite, rw-preserves).  Binding: every step of / into / out of a read-only
session over the bounded universes is executed: every mutator must throw, the observation must not change, and the harness
hashes the file bytes before the ro session and after every step; the NixVersion transitions with header defects, absent
files and the three modes are replayed as in C10."""
import file_common, vcheck, version_common

def run(chk, replay=None):
    t = 't' if chk.thorough else 'q'
    if replay is not None and replay.get('m') == 'version':
        rp = vcheck.Replayer(vcheck.ensure_build('plain'), seed=chk.seed)
        file_common.replay_one(chk, rp, replay)
        return
    cfgs = ['c09a_' + t, 'c09b_' + t, 'c09c_' + t]
    sims = []
    def judge(r):
        steps = r['pre'] + [r['step']]
        return any(s['a'] == 'Open' and s['args']['n'] == 'ro' for s in steps)
    chk.rule = ('one case per transition of / into / out of a read-only session (every mutator of the vocabulary attempted in every reachable '
                'file state of 2 universes, BFS exhaustive within bounds): must throw, observation unchanged, file bytes unchanged (hash); '
                'plus every NixVersion transition with a header defect / absent file / Overwrite / ReadWrite on an intact header')
    file_common.run_file_check(chk, cfgs, sims, judge=judge, replay=replay, opts={'ignore_handles': True}, 
                               coverage=['Open', 'Create:reject', 'Delete:reject', 'SetAttr:reject', 'AddLink:reject', 'SetOne:reject', 'DeleteDims:reject', 'RemoveLink:reject'])
    # header / modes part
    rp = vcheck.Replayer(vcheck.ensure_build('plain'), seed=chk.seed)
    def lines():
        for rec in version_common.emitted(chk):
            if 'EnvSetVersion' not in version_common.tampers(rec) and not any(s['a'] == 'Open' and s['args']['force'] for s in rec['pre'] + [rec['step']]):
                yield rec
    recs, verdicts = rp.run(lines())
    chk.absorb(recs, verdicts, rp)
    chk.traces_validated = len(chk.distinct)
    chk.exhaustive = True
