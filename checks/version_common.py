"""NixVersion.tla -> emitted transitions -> nixreplay 'version' handler (shared by C09 header part and C10)."""
import vcheck

def tampers(rec):
    steps = rec['pre'] + [rec['step']]
    return {s['a'] for s in steps if s['a'].startswith('Env')}

def emitted(chk):
    run = vcheck.TlcRun('MC_NixVersion_t' if chk.thorough else 'MC_NixVersion', workers=8, seed=chk.seed)
    for rec in run:
        yield rec
    run.require_ok()
    run.require_coverage(['EnvSetVersion', 'EnvDefect', 'Open', 'CreateBlock', 'Close'])
    chk.note_tlc(run)
