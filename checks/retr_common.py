"""NixRetrieval.tla case tables -> nixreplay 'retr' handler (C05, C06, C17 slices)."""
import vcheck

def run_retr(chk, tiers, judge=None, replay=None, chunk=80):
    binary = vcheck.ensure_build('plain')
    opts = {'axes': 'all' if chk.thorough else 'quick'}
    rp = vcheck.Replayer(binary, seed=chk.seed, opts=opts, chunk=chunk, timeout_per_line=60)
    if replay is not None:
        if replay.get('_opts'):
            rp = vcheck.Replayer(binary, seed=chk.seed, opts=replay['_opts'], chunk=chunk, timeout_per_line=120)
        v = rp.single(replay)
        chk.judged(replay, n=v.get('n', 1))
        if v.get('v') != 'ok':
            chk.disagreement(replay, v, rp)
        return
    for t in tiers:
        import os
        cfgname = 'MC_NixRetrieval_%s_t.cfg' % t if (chk.thorough and os.path.exists(vcheck.SPEC + '/MC_NixRetrieval_%s_t.cfg' % t)) else 'MC_NixRetrieval_%s.cfg' % t
        run = vcheck.TlcRun('MC_NixRetrieval', cfgname, workers=8, coverage=False)
        recs, verdicts = rp.run(r for r in run if judge is None or judge(r))
        run.require_ok()
        if run.lines == 0:
            raise vcheck.MachineryError('no case emitted by ' + t)
        chk.note_tlc(run)
        chk.absorb(recs, verdicts, rp)
    # the same tables with the request in another unit than the dimension (a sample of the cases): one request unit against
    # different dimension units and the mirrored pair, one after the other in one process - the selected elements must not change
    UNIT_PAIRS = [['s', 'ms', 1000.0, 0.001], ['ks', 'ms', 1e6, 1e-6], ['s', 'ms', 1000.0, 0.001], ['ms', 's', 0.001, 1000.0]]
    opts2 = dict(opts, dim_unit='s', tag_unit='ms', scale=1000.0, factor=0.001, unit_pairs=UNIT_PAIRS)
    rp2 = vcheck.Replayer(binary, seed=chk.seed, opts=opts2, chunk=chunk, timeout_per_line=120)
    stride = 4 if chk.thorough else 5
    for t in tiers:
        run = vcheck.TlcRun('MC_NixRetrieval', 'MC_NixRetrieval_%s.cfg' % t, workers=8, coverage=False)
        def src():
            for k, r in enumerate(run):
                if (k + chk.seed) % stride == 0 and (judge is None or judge(r)):
                    r['_opts'] = opts2
                    yield r
        recs, verdicts = rp2.run(src())
        run.require_ok()
        chk.note_tlc(run)
        chk.absorb(recs, verdicts, rp2)
    chk.extra['unit_pairs_pass'] = {'pairs': UNIT_PAIRS, 'stride': stride}
    chk.exhaustive = True
    chk.traces_validated = len(chk.distinct)
    chk.extra['concrete_axes'] = opts['axes']
    chk.assumptions += ['regions are stated on order-abstracted axes (NixAxisDefs); concrete axes come from a finite dictionary and every '
                        'concrete request is re-classified exactly (position + extent as the library computes it) before it is judged',
                        'element values are the linear index, so returned elements identify the region exactly',
                        'trusted: TLC, harness/h_retr.cpp, harness/axes.hpp']
