"""C20 tree searches and back-reference queries equal a brute-force traversal.
Spec: NixFile.tla query section (SectionSearch / SourceSearch / File / Block searches with the depth convention of each entry point,
InheritedProps, Referring*, AttachedTo, ParentSource; SearchEqualsBruteForce, BreadthFirst, BackRefsEqualBruteForce checked by
TLC in every reachable state).  Binding: in every reachable state of the tree universes (after arbitrary deletions) one QueryAll
step carries every query - every start node x every filter kind (all, name, type, id, id set) x depths 0..3 and unlimited - with
its result; each is executed: single-root searches compared as sequences, file / block searches and back references as multisets."""
import file_common

def run(chk, replay=None):
    t = 't' if chk.thorough else 'q'
    cfgs = ['c20%s_%s' % (x, t) for x in 'abcd']
    judge = lambda r: r['step']['a'] == 'QueryAll'
    chk.rule = ('one QueryAll case per reachable state of 4 tree universes (sections+properties+links; blocks+nested sources; metadata / source '
                'assignments to arrays, tags, multi-tags; deep section trees), each carrying all queries (start node x filter x depth); '
                'evaluations = executed queries, distinct = states')
    file_common.run_file_check(chk, cfgs, [], judge=judge, replay=replay, opts={'ignore_handles': True}, coverage=['QueryAll', 'pre:Delete', 'pre:Create'])
    chk.exhaustive = True
