"""C10 format-version gate.  Spec: NixVersion.tla (GateRead/GateWrite/GateComplete/ForceBypasses + order laws as ASSUME);
binding: every transition of the bounded graph whose history tampers with nothing but the version attribute is replayed,
and the FormatVersion operators are evaluated on every pair of the version set (MC_NixVersionCmp)."""
import vcheck, version_common

def run(chk, replay=None):
    binary = vcheck.ensure_build('plain')
    rp = vcheck.Replayer(binary, seed=chk.seed)
    if replay is not None:
        v = rp.single(replay)
        chk.judged(replay)
        if v.get('v') != 'ok':
            chk.disagreement(replay, v, rp)
        return
    chk.rule = ('one case per transition of NixVersion (BFS, exhaustive for version cube lib+-2 (thorough: +-3) in every component plus extremes and packed-collision triples, '
                '3 modes, Force on/off, up to 2 opens); non-trivial = Open step on a file whose version attribute was rewritten; '
                'plus one case per ordered pair of version triples for the comparison operators')
    def lines():
        for rec in version_common.emitted(chk):
            t = version_common.tampers(rec)
            if t <= {'EnvSetVersion'} and (rec['step']['a'] in ('Open', 'CreateBlock', 'EnvSetVersion')):
                yield rec
    recs, verdicts = rp.run(lines())
    chk.absorb(recs, verdicts, rp)
    # comparison operators: one case per pair
    run2 = vcheck.TlcRun('MC_NixVersionCmp_t' if chk.thorough else 'MC_NixVersionCmp', workers=8)
    recs, verdicts = rp.run(r for r in run2)
    run2.require_ok()
    chk.note_tlc(run2)
    chk.absorb(recs, verdicts, rp)
    # the ordering / gate laws for ALL integer triples (Apalache, symbolic; an extra on top of the TLC cube)
    r = vcheck.apalache_laws('NixVersionLaws')
    chk.extra['apalache_unbounded_laws'] = r
    if r == 'Error':
        raise vcheck.MachineryError('Apalache refutes the version laws of the specification')
    chk.exhaustive = True
    chk.traces_validated = chk.evaluations
    chk.assumptions += ['version attribute rewritten with the HDF5 C API as native int[3]',
                        'Force is exercised only on files whose header is otherwise intact']
