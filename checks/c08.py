"""C08 a rejected operation leaves no trace.
Spec: NixFile.tla (every action has explicit guards; the complement is Reject with UNCHANGED state; RejectFrame).
Binding: every rejected call (duplicate / empty / invalid name, empty type, target in another block or another file,
shape mismatch of extents, duplicate link) in every reachable state of the bounded universes is executed; it must throw and
the full observation - in the session and again after close + reopen - must equal the one before the call.
Rejections of the data / dimension / property / frame APIs are judged by the same rule in NixData/NixDims/NixProp/NixFrame."""
import file_common

def run(chk, replay=None):
    if replay is not None and replay.get('m') == 'trace':
        return file_common.run_traces(chk, lambda e: e['res'] == 'reject', 1, 0, replay=replay)
    if replay is not None and replay.get('m') == 'dims':
        import dims_common
        return dims_common.run_dims(chk, replay=replay)
    if replay is not None and replay.get('m') == 'data':
        import data_common
        return data_common.run_data(chk, ['array'], replay=replay)
    t = 't' if chk.thorough else 'q'
    cfgs = ['c08%s_%s' % (x, t) for x in 'abcdefg']
    sims = [('all', 3000 if chk.thorough else 200, 30)]
    judge = lambda r: r['step']['res'] == 'reject' and not any(s['a'] == 'Open' and s['args']['n'] == 'ro' for s in r['pre'])
    chk.rule = ('one case per rejected transition (self-loop) in every reachable state of 3 bounded universes (BFS exhaustive) plus rejected '
                'steps of random behaviours over the whole vocabulary; each case: the call must throw and the full observation, also after '
                'close+reopen, must be unchanged')
    file_common.run_file_check(chk, cfgs, sims, judge=judge, replay=replay, opts={'reopen_check': True, 'ignore_handles': True},
                               coverage=['Create:reject', 'CreateBad:reject', 'SetOne:reject', 'AddLink:reject', 'SetType:reject', 'SetLinks:reject'])
    # rejected calls of the data / dimension APIs: same rule, judged on NixData and NixDims (only the rejected transitions)
    import data_common, dims_common, vcheck
    rej = lambda r: r['step']['res'] == 'reject'
    dims_common.run_dims(chk, c08=True)
    binary = vcheck.ensure_build('plain')
    t = 't' if chk.thorough else 'q'
    # (every line is executed; an accepted call, or one rejected without a trace where the specification expected success, is not judged)
    rp = vcheck.Replayer(binary, seed=chk.seed, opts={'types': ['Double', 'String', 'Int16'], 'compressions': ['None'], 'c08_only': True}, chunk=60)
    for c in ['r1_' + t, 'r2_' + t, 'r3_' + t, 'view1_' + t]:
        run = vcheck.TlcRun('NixData', 'MC_NixData_%s.cfg' % c, workers=8, coverage=False)
        recs, verdicts = rp.run(r for r in run)
        run.require_ok()
        chk.note_tlc(run)
        verdicts = [v for v in verdicts if v.get('c08') or rej(recs.get(v.get('i'), {'step': {'res': ''}})) or v.get('v') not in ('ok', 'mismatch', 'unjudgeable')]
        chk.absorb(recs, verdicts, rp)
    # direction B: random API programs recorded from the real library, validated against NixFileTrace.tla
    file_common.run_traces(chk, lambda e: e['res'] == 'reject', 24 if chk.thorough else 6, 1500 if chk.thorough else 400)
    chk.exhaustive = False
