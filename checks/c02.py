"""C02 close and reopen preserves the complete entity tree.
Spec: NixFile.tla (Close saves the tree, Open shows disk; ReopenIdentity, CloseSaves, FlushSaves).  Binding: every Open
transition (rw and ro) after every history of the bounded universes - with flush / close+reopen also inside the history - is
executed and the complete observation after the reopen (entities, ids, names, types, definitions, attribute bundles incl.
stored data, dimension descriptors, containers, links, creation times) compared with the specification's."""
import file_common

def run(chk, replay=None):
    if replay is not None and replay.get('m') == 'time':
        import vcheck
        rp = vcheck.Replayer(vcheck.ensure_build('plain'), seed=chk.seed)
        v = rp.single(replay); chk.judged(replay)
        if v.get('v') not in ('ok', 'unjudgeable'):
            chk.disagreement(replay, v, rp)
        return
    if replay is not None and replay.get('m') == 'trace':
        return file_common.run_traces(chk, lambda e: e['a'] == 'Open', 1, 0, replay=replay)
    t = 't' if chk.thorough else 'q'
    cfgs = ['c02%s_%s' % (x, t) for x in 'abcdefghi']
    sims = [('all', 6000 if chk.thorough else 400, 35)]
    judge = lambda r: r['step']['a'] == 'Open'
    chk.rule = ('one case per Open transition after every history (<= 3/4 creations, history length bound) of 2 universes covering all entity kinds plus 7 focused universes with a churn counter (containers emptied and refilled, links replaced, dimensions / features / properties deleted and re-created before the reopen) '
                'kinds (BFS exhaustive within the bounds) plus Open steps of random behaviours over the whole vocabulary (9 creations, nesting); '
                'full observation compared after reopen in rw and ro mode')
    file_common.run_file_check(chk, cfgs, sims, judge=judge, replay=replay, opts={'ignore_handles': True, 'touch_retained': True},  coverage=['Open', 'pre:Close', 'pre:SetAttr', 'pre:AppendDim', 'pre:AddLink', 'pre:SetOne', 'pre:Delete'])
    # creation times (and updated_at) across reopen: NixTime.tla, every Reopen transition, entity kinds in rotation
    import vcheck
    rpt = vcheck.Replayer(vcheck.ensure_build('plain'), seed=chk.seed, chunk=60)
    runt = vcheck.TlcRun('NixTime', 'MC_NixTime_%s.cfg' % ('t' if chk.thorough else 'q'), workers=4, coverage=False)
    recs, verdicts = rpt.run(r for r in runt if r['step']['a'] == 'Reopen')
    runt.require_ok()
    chk.note_tlc(runt)
    chk.absorb(recs, verdicts, rpt)
    # direction B: random API programs recorded from the real library, validated against NixFileTrace.tla
    file_common.run_traces(chk, lambda e: e['a'] == 'Open', 24 if chk.thorough else 6, 1500 if chk.thorough else 400)
    chk.exhaustive = False
