"""C03 names unique per parent; look-ups, counts and order agree.
Spec: NixFile.tla (NamesUniqueInv, OrderInv; Create with an existing name -> reject).  Binding: every Create / Delete /
AddLink / RemoveLink / Open transition over 2-3 names per container (containers grouped so that equal names meet across
kinds and nesting levels) is executed; the observer checks count, enumeration, get(index), get(name), get(id), has(name),
has(id), has(handle) and negative look-ups of every container against each other and compares names and order."""
import file_common

def run(chk, replay=None):
    if replay is not None and replay.get('m') == 'trace':
        return file_common.run_traces(chk, lambda e: e['a'] in ('Create', 'Delete', 'AddLink', 'RemoveLink', 'Open'), 1, 0, replay=replay)
    t = 't' if chk.thorough else 'q'
    cfgs = ['c03%s_%s' % (x, t) for x in 'abcdefhijk']
    sims = [('all', 2000 if chk.thorough else 100, 30)]
    J = ('Create', 'Delete', 'Open', 'AddLink', 'RemoveLink', 'SetLinks')
    judge = lambda r: r['step']['a'] in J
    chk.rule = ('one case per Create/Delete/AddLink/RemoveLink/Open transition of all create/delete/re-create/reopen interleavings over '
                '2-3 names in 5 container groups (BFS exhaustive within the creation bound), plus such steps of random behaviours over the '
                'whole vocabulary; each case = full observation incl. self-agreement of all look-up paths; names concretised by dictionary %d') % (chk.seed % 6)
    file_common.run_file_check(chk, cfgs, sims, judge=judge, replay=replay, opts={'ignore_handles': True},  coverage=['Create:reject', 'Delete', 'Open', 'AddLink'])
    # names that look like UUIDs are always exercised (look-up by name must not be confused with look-up by id)
    if chk.seed % 6 != 2:
        file_common.run_file_check(chk, ['c03a_' + t, 'c03c_' + t], [], judge=judge, opts={'names': 2, 'ignore_handles': True})
    # names that differ only in case are always exercised, also as members of link containers (group members, references)
    if chk.seed % 6 != 1:
        file_common.run_file_check(chk, ['c03f_' + t, 'c03g_' + t], [], judge=judge, opts={'names': 1, 'ignore_handles': True})
    # direction B: random API programs recorded from the real library, validated against NixFileTrace.tla
    file_common.run_traces(chk, lambda e: e['a'] in ('Create', 'Delete', 'AddLink', 'RemoveLink', 'Open'), 24 if chk.thorough else 6, 1500 if chk.thorough else 400)
    chk.exhaustive = False
