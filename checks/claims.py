# Table read by bin/mkmanifest.  One claim() per property whose check exists.
HOOK_COMMITS = []
NOT_APPLICABLE = {}
NOTES = ('All checks: TLA+ specification in /verif/spec checked with TLC; every transition / case TLC explores is '
         'emitted as one JSON line and replayed against the library built from /repo\'s current working tree '
         '(harness/nixreplay), comparing outcome class and projected state. Exit 2 = machinery failure.')
ENGINES = [
    {'name': 'tlc-emit-replay', 'path': '/verif/lib/vcheck.py',
     'serves_properties': [], 'kind_free_text': 'TLC (BFS or simulation) over a TLA+ module with ACTION_CONSTRAINT emission; '
      'each emitted transition is executed by harness/nixreplay against the real library and the projected state compared'},
]
claim('C10', 'model_checking', 'tlc-emit-replay', 'TLA+ spec NixVersion + TLC (exhaustive) + per-transition replay',
      'TLC checks the gate/ordering formulas on the design exhaustively over the version cube (lib+-2 per component) plus '
      'extremes x 3 modes x Force; every explored transition and every ordered pair of triples is executed against File::open / '
      'nix::FormatVersion. Exhaustive inside the cube, which is the quantifier the property names.',
      'Trusted: TLC, the harness (h_version.cpp), HDF5 C API for rewriting the version attribute. Triples outside the cube and the '
      '27 extreme combinations are not explored.', 'DESIGN.md section 5 (C10)')
claim('C07', 'model_checking', 'tlc-emit-replay', 'TLA+ spec NixAxis + TLC (exhaustive case table) + one implementation test per case per concrete axis',
      'The matching rules are stated in NixAxis.tla on order-abstracted axes; TLC enumerates every (kind, window, position code, rule) and '
      '(start, end, mode) case and checks RoundTrip/Between/Monotone/PairExact on each; every case is executed on a dictionary of concrete '
      'axes with positions on, one ulp beside, between and beyond coordinates (oracle re-derived from exact comparisons of doubles).',
      'Trusted: TLC, harness/axes.hpp (coordinates computed as double(i)*interval+offset and cross-checked with positionAt/tickAt). '
      'Concrete intervals/offsets/ticks are a finite dictionary; window n<=3 (quick) / 5 (thorough).', 'DESIGN.md section 5 (C07)')
ENGINES[0]['serves_properties'] = sorted(CLAIMED)
