# Table read by bin/mkmanifest.  One claim() per property whose check exists.
HOOK_COMMITS = []
NOT_APPLICABLE = {}
NOTES = ('All checks: TLA+ specification in /verif/spec checked with TLC; every transition / case TLC explores is '
         'emitted as one JSON line and replayed against the library built from /repo\'s current working tree '
         '(harness/nixreplay), comparing outcome class and projected state. Exit 2 = machinery failure.')
ENGINES = [
    {'name': 'tlc-emit-replay', 'path': '/verif/lib/vcheck.py',
     'serves_properties': [], 'kind_free_text': 'TLC (BFS or simulation) over a TLA+ module with ACTION_CONSTRAINT emission; '
      'each emitted transition is executed by harness/nixreplay against the real library and the projected state compared'},
]
claim('C10', 'model_checking', 'tlc-emit-replay', 'TLA+ spec NixVersion + TLC (exhaustive) + per-transition replay',
      'TLC checks the gate/ordering formulas on the design exhaustively over the version cube (lib+-2 per component) plus '
      'extremes x 3 modes x Force; every explored transition and every ordered pair of triples is executed against File::open / '
      'nix::FormatVersion. Exhaustive inside the cube, which is the quantifier the property names.',
      'Trusted: TLC, the harness (h_version.cpp), HDF5 C API for rewriting the version attribute. Triples outside the cube and the '
      '27 extreme combinations are not explored.', 'DESIGN.md section 5 (C10)')
claim('C07', 'model_checking', 'tlc-emit-replay', 'TLA+ spec NixAxis + TLC (exhaustive case table) + one implementation test per case per concrete axis',
      'The matching rules are stated in NixAxis.tla on order-abstracted axes; TLC enumerates every (kind, window, position code, rule) and '
      '(start, end, mode) case and checks RoundTrip/Between/Monotone/PairExact on each; every case is executed on a dictionary of concrete '
      'axes with positions on, one ulp beside, between and beyond coordinates (oracle re-derived from exact comparisons of doubles).',
      'Trusted: TLC, harness/axes.hpp (coordinates computed as double(i)*interval+offset and cross-checked with positionAt/tickAt). '
      'Concrete intervals/offsets/ticks are a finite dictionary; window n<=3 (quick) / 5 (thorough).', 'DESIGN.md section 5 (C07)')
FILE_NOTE = ('Trusted: TLC, harness/h_file.cpp (executor, observer, concretiser). Bounds: see evidence (creations per history, names, '
             'history length); beyond them only random behaviours. Abstract names/types/attribute bundles are mapped through finite dictionaries.')
claim('C02', 'model_checking', 'tlc-emit-replay', 'TLA+ spec NixFile + TLC (BFS + simulation) + per-transition replay with full-state observation',
      'ReopenIdentity/CloseSaves/FlushSaves are checked by TLC on the design for every bounded history; every Open transition TLC explores is '
      'executed against the library and the complete projected file state after the reopen is compared with the specification.', FILE_NOTE, 'DESIGN.md section 5 (C02)')
claim('C03', 'model_checking', 'tlc-emit-replay', 'TLA+ spec NixFile + TLC (BFS + simulation) + per-transition replay; observer cross-checks all look-up paths',
      'NamesUniqueInv/OrderInv hold in every reachable state of the design; every create/delete/link/reopen transition is executed and names, '
      'order, counts and the mutual agreement of all look-up paths of every container are compared.', FILE_NOTE, 'DESIGN.md section 5 (C03)')
claim('C04', 'model_checking', 'tlc-emit-replay', 'TLA+ spec NixFile + TLC (BFS over link graphs + simulation) + per-transition replay',
      'NoDanglingInv and DeleteFrame hold on the design for every bounded link graph and victim; every Delete transition (by name/id/handle) is '
      'executed and all survivors, all containers/links and the validity of all retained handles are compared. One recorded deviation '
      '(C04-zombie) is predicted exactly by the specification.', FILE_NOTE, 'DESIGN.md section 5 (C04)')
claim('C08', 'model_checking', 'tlc-emit-replay', 'TLA+ spec NixFile + TLC (every rejected self-loop in every reachable state) + replay incl. close/reopen',
      'RejectFrame holds on the design; every rejected call TLC enumerates in every reachable state is executed: it must throw and leave the '
      'complete observation unchanged, in the session and after close+reopen.', FILE_NOTE + ' Rejections of data/dimension/property/frame calls are judged in their own modules.', 'DESIGN.md section 5 (C08)')
claim('C09', 'model_checking', 'tlc-emit-replay', 'TLA+ specs NixFile (read-only sessions) and NixVersion (modes, header defects) + TLC + replay with byte hash',
      'ReadOnlyFrame/ReadOnlyRejects/RWPreserves/OverwriteEmpties/RefuseWithoutHeader hold on the design; every mutator in every reachable '
      'file state is attempted in a read-only session (must throw, observation and file bytes unchanged) and every header-defect / mode '
      'transition is executed.', FILE_NOTE, 'DESIGN.md section 5 (C09)')
claim('C11', 'model_checking', 'tlc-emit-replay', 'TLA+ spec NixFile with Flush/Close/Crash/Open + TLC + replay with SIGKILL of the writing child process',
      'DurableAfterFlush/FlushSaves/CloseSaves hold on the design for all bounded histories with up to 4 life-cycle events; every '
      'Close/Crash/Open transition is executed: the writer is killed with SIGKILL at the crash point while holding all handles, the parent '
      'reopens in every mode and compares the full observation; closed handles must throw, descriptors must be released.',
      FILE_NOTE + ' Crash = kill of the process (page cache survives), not of the machine; opening for write counts as a modification.', 'DESIGN.md section 5 (C11)')
RETR_NOTE = ('Trusted: TLC, harness/h_retr.cpp + axes.hpp. Axis length n<=3, rank<=3, N<=2 rows (quick); concrete axes from a finite dictionary; '
             'positions re-classified exactly before judging. Unit scaling of positions is judged in C18.')
claim('C05', 'model_checking', 'tlc-emit-replay', 'TLA+ spec NixRetrieval (on NixAxisDefs) + TLC (exhaustive case table) + one implementation test per case per concrete axis',
      'The region rule is stated once in NixRetrieval.tla; TLC enumerates every rank-1 case and the combination classes for rank 2-3 and checks '
      'ExactOneDim/PointIsGE/UnspecifiedIsFull/InsideData; each case is executed (elements compared). One recorded deviation '
      '(C05-unspecified-dim) is recognised by an exact signature.', RETR_NOTE, 'DESIGN.md section 5 (C05)')
claim('C06', 'model_checking', 'tlc-emit-replay', 'TLA+ spec NixRetrieval (MultiRegion/MultiList) + TLC (exhaustive case table) + implementation test per case',
      'MultiRegion/MultiList/FeatureRegionMulti with ListEqualsSingles and IndexBeyondIsError checked by TLC; every case is executed through '
      'all retrieval entry points incl. the default mode, list vs singles, all link types.', RETR_NOTE, 'DESIGN.md section 5 (C06)')
claim('C17', 'model_checking', 'tlc-emit-replay', 'TLA+ specs NixRetrieval (SliceRegion) and NixData (DataView actions, ViewFrame) + TLC + replay',
      'Slices: same rule as tags, every rank-1 case exhaustively + combinations, executed through util::dataSlice. Views: every window of small '
      'arrays x every request inside / touching / crossing, reads and writes in histories; the underlying array is compared after every step.',
      RETR_NOTE, 'DESIGN.md section 5 (C17)')
claim('C01', 'model_checking', 'tlc-emit-replay', 'TLA+ spec NixData + TLC (BFS over write/append/extent/calibration/reopen histories) + per-transition replay per element type',
      'SlabFrame/GrowReadsZero/AppendKeeps/RawUnaffected/RejectFrame hold on the design; every transition is executed for each element type '
      'and compression and the whole content plus every rectangular sub-region is read back raw, calibrated and cross-type.',
      'Trusted: TLC, harness/h_data.cpp. Small shapes (ext<=3, rank<=3 quick / 4 thorough); values from per-type dictionaries, not arbitrary bit patterns.', 'DESIGN.md section 5 (C01)')
claim('C13', 'model_checking', 'tlc-emit-replay', 'TLA+ spec NixDims + TLC (BFS over append/modify/delete/alias histories) + per-transition replay with all getters',
      'TicksSorted/IntervalPositive/UnitsSI/AliasAlone/AliasMirrors/DeleteAllLeavesNone/AppendFrameProp/RejectFrame hold on the design; every '
      'transition incl. every illegal value at every entry point is executed and all getters of all descriptors plus the array side of the alias '
      'mirror are compared, also after reopen.', 'Trusted: TLC, harness/h_dims.cpp. Two good + the bad values per field; <=3 descriptors; depth <=5.', 'DESIGN.md section 5 (C13)')
claim('C14', 'model_checking', 'tlc-emit-replay', 'TLA+ spec NixProp + TLC (BFS) + per-transition replay per value type and creation overload',
      'ReadsLastAssigned/CountFollows/OthersKeep/TypeStable/RejectFrame hold on the design; every transition is executed on a real Property with '
      'stretched value vectors of extreme values and compared in the session and after reopen.', 'Trusted: TLC, harness/h_prop.cpp. Value dictionaries, lengths {0,1,2,3,7,8,9,64}; depth 2 (quick) / 3.', 'DESIGN.md section 5 (C14)')
claim('C15', 'model_checking', 'tlc-emit-replay', 'TLA+ spec NixFrame + TLC (BFS) + per-transition replay with every cell read through all access paths',
      'WriteFrame (last write wins per cell across the three write paths), ResizeKeeps, RejectFrame hold on the design; every transition is executed and '
      'schema and every cell are read back through readRow/readCell/readCells/readColumn.', 'Trusted: TLC, harness/h_frame.cpp. 2-3 model columns (+ unwritten extras up to 8), <=3 rows, depth 5; types rotate by seed.', 'DESIGN.md section 5 (C15)')
claim('C18', 'model_checking', 'tlc-emit-replay', 'TLA+ spec NixUnits (+ NixRetrieval for invariance) + TLC (exhaustive unit table, algebra laws as ASSUME) + implementation test per case',
      'The exponent algebra (Reciprocal/Compose/Symmetric/Identity/Unambiguous) is checked by TLC over all prefixes and powers; every scalable pair '
      '(21x21x31x7), sampled non-scalable pairs and non-SI strings are executed; the retrieval case tables are replayed with requests in a prefixed unit.',
      'Trusted: TLC, harness/h_units.cpp, h_retr.cpp. Factor compared with 10^k to 1e-12 relative; only exactly rescalable requests are used; powers -3..3.', 'DESIGN.md section 5 (C18)')
claim('C20', 'model_checking', 'tlc-emit-replay', 'TLA+ spec NixFile (query section) + TLC (invariants in every reachable state) + replay of every query per state',
      'SearchEqualsBruteForce/BreadthFirst/BackRefsEqualBruteForce hold in every reachable state of the design; in every reachable state of the tree '
      'universes every query (start x filter x depth) is executed and compared with the specification (sequence for single-root searches, multiset otherwise).',
      FILE_NOTE + ' Trees up to 5-6 nodes (creations bound), depths 0..3 and unlimited, 2 names, 2 types; findRelated is not covered.', 'DESIGN.md section 5 (C20)')
claim('C19', 'model_checking', 'tlc-emit-replay', 'TLA+ spec NixValid (rule table over breach subsets) + TLC (exhaustive subsets) + implementation test per subset',
      'Sound/SoftNeverError/Complete/SoftWarns are checked by TLC on the rule table for every breach subset; each subset is injected into a real conforming file and '
      'the per-entity presence of validator errors is compared; for every soft-rule breach present the entity and the file must carry a warning (SoftWarns); in-place inject / repair / reopen / validate histories check HistoryFree.', 'Trusted: TLC, harness/h_valid.cpp. One base-file shape with 3 length variants; <=3 (quick) / 4 breaches per file; one known finding (an array without any unit gets no warning).', 'DESIGN.md section 5 (C19)')
claim('C12', 'model_checking', 'tlc-emit-replay', 'TLA+ spec NixIds + TLC (all interleavings) + recorded multi-process executions validated by NixIdsTrace (trace validation), id stability via NixFile replay',
      'TLC finds the same-second collision in the time-seeded design and proves IdsUnique for the entropy-seeded one (3 processes, 2 ticks); real writer '
      'processes are run per schedule class (same second, restart within a second, sequential sessions on one file, forked children, threads, one long-lived process drawing ~10^4 ids, different seconds) and their '
      'Start/CreateId/Reread logs are accepted by the trace specification only if every id is well-formed, new and stable; id stability under create/delete/re-create/'
      'reopen with UUID-shaped names comes from the NixFile replay.',
      'Trusted: TLC, harness/h_ids.cpp, kernel entropy. Uniqueness of entropy seeds is an assumption of the model; collisions are only detectable among the ids actually drawn (8 x ~100 and 1 x ~9000 quick).', 'DESIGN.md section 5 (C12)')
claim('C16', 'exploration', 'tlc-emit-replay', 'programs generated from the TLA+ specs (NixMisuse case table + lines of all other modules) executed under ASan+UBSan',
      'Exploration, not model checking: the specifications supply the programs and the state coverage; undefined behaviour is detected by the sanitizers on the '
      'executions actually run. This is the level the technique can honestly give for memory safety.',
      'HDF5 is not instrumented; leaks are not counted; only generated programs are judged.', 'DESIGN.md section 5 (C16)')
ENGINES[0]['serves_properties'] = sorted(CLAIMED)
