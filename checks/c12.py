"""C12 ids are well-formed UUIDs, never change and never collide.
Spec: NixIds.tla (processes seed a generator at start and draw ids; IdsUnique).  TLC explores all interleavings of start / tick /
create / exit of 3 processes: with SeedSource = "time" it must FIND the collision (two processes started in the same second) - this
keeps the model honest - and with "entropy" IdsUnique holds.  The verdict on the code comes from recorded executions (direction B):
for each schedule class the harness runs real writer processes (released together at the start of a wall-clock second / one after the
other within a second / one after the other on the same file / in different seconds), logs Start, CreateId (file, block, section,
array, tag, feature, multi-tag, group, nested sources, property, frame) and Reread events, and NixIdsTrace.tla accepts the log only if
every id is well-formed, new when issued and unchanged when re-read in a fresh session."""
import vcheck, json, os, shutil, subprocess, re, time

def validate_trace(path):
    """returns (accepted, matched_lines)"""
    meta = '%s/tlc/%s' % (vcheck.BUILD, os.path.basename(path))
    os.makedirs(meta, exist_ok=True)
    env = dict(os.environ); env['TRACE'] = path
    p = subprocess.run(['timeout', '600', 'java', '-XX:+UseParallelGC', '-Xmx4g', '-cp', vcheck.JAR, 'tlc2.TLC', '-workers', '1', '-noGenerateSpecTE',
                        '-metadir', meta, '-config', 'MC_NixIdsTrace.cfg', 'NixIdsTrace.tla'], cwd=vcheck.SPEC, env=env, capture_output=True, text=True)
    shutil.rmtree(meta, ignore_errors=True)
    out = p.stdout
    m = re.search(r'depth of the complete state graph search is (\d+)', out)
    depth = int(m.group(1)) if m else 0
    if 'Invariant NotAccepted is violated' in out:
        return True, depth - 1
    if 'No error has been found' in out:
        return False, depth - 1
    raise vcheck.MachineryError('trace validation failed to run:\n' + out[-2000:])

def run(chk, replay=None):
    binary = vcheck.ensure_build('plain')
    if replay is not None and replay.get('m') == 'file':
        import file_common
        return file_common.run_file_check(chk, [], [], opts={'names': 2, 'ignore_handles': True}, replay=replay)
    if replay is not None:
        # a replay file holds the recorded trace
        path = '%s/work/replay-trace.ndjson' % vcheck.BUILD
        os.makedirs(os.path.dirname(path), exist_ok=True)
        open(path, 'w').write('\n'.join(json.dumps(e) for e in replay['trace']) + '\n')
        acc, n = validate_trace(path)
        chk.judged(replay)
        if not acc:
            chk.violations.append((replay, {'v': 'rejected', 'what': 'recorded trace rejected at event %d' % (n + 1)}))
        return
    # 1. the design: time-seeded generators collide, entropy-seeded ones do not
    r1 = vcheck.TlcRun('NixIds', 'MC_NixIds_time.cfg', workers=4, coverage=False).run()
    if not any('IdsUnique is violated' in e for e in r1.errors):
        raise vcheck.MachineryError('TLC did not find the same-second collision in the time-seeded design (vacuous model?)')
    chk.note_tlc(r1)
    for cfg, what in (('once', 'fork collision of a generator seeded once per process'), ('thread', 'collision between per-thread generators started from the process seed')):
        rg = vcheck.TlcRun('NixIds', 'MC_NixIds_%s.cfg' % cfg, workers=4, coverage=False).run()
        if not any('IdsUnique is violated' in e for e in rg.errors):
            raise vcheck.MachineryError('TLC did not find the %s (vacuous model?)' % what)
        chk.note_tlc(rg)
    for cfg in ('once_nofork', 'entropy'):
        r2 = vcheck.TlcRun('NixIds', 'MC_NixIds_%s.cfg' % cfg, workers=16, coverage=False, heap='12g').run()
        r2.require_ok()
        chk.note_tlc(r2)
    # the same design for ANY number of steps / ids / ticks: inductive invariant with Apalache (an extra on top of TLC's bounded graph)
    a0 = vcheck.apalache_check('NixIdsInd', ['--config=MC_NixIds_apa.cfg', '--init=Init', '--inv=IndInv', '--length=0'])
    a1 = vcheck.apalache_check('NixIdsInd', ['--config=MC_NixIds_apa.cfg', '--init=IndInit', '--inv=IndInv', '--length=1'])
    chk.extra['apalache_inductive_invariant'] = {'init_implies_inv': a0, 'inv_is_inductive': a1}
    if 'Error' in (a0, a1):
        raise vcheck.MachineryError('Apalache refutes the inductive invariant of the entropy design: %s %s' % (a0, a1))
    # 2. recorded executions per schedule class
    rp = vcheck.Replayer(binary, seed=chk.seed, jobs=1, chunk=1, timeout_per_line=300)
    K, N = (16, 400) if chk.thorough else (8, 60)
    rounds = 4 if chk.thorough else 1
    classes = [('same_second', K, N), ('restart', 6, 30), ('shared_file', 4, 30), ('fork', 4, 30), ('threads', 3, 30), ('long_run', 1, 80)] + ([('staggered', 3, 30)] if chk.thorough else [])
    RAW = 40000 if chk.thorough else 9000      # direct createId() calls of the long-lived process (spread between its entity creations)
    tdir = '%s/work/ids-%d' % (vcheck.BUILD, os.getpid())
    os.makedirs(tdir, exist_ok=True)
    try:
        for rnd in range(rounds):
            for (sched, k, n) in classes:
                trace = '%s/%s-%d.ndjson' % (tdir, sched, rnd)
                rec = {'m': 'ids', 'schedule': sched, 'procs': k, 'ids': n, 'trace': trace, 'raw': RAW}
                if sched == 'long_run' and rnd > 0:
                    continue
                v = rp.single(rec)
                if v.get('v') != 'ok':
                    raise vcheck.MachineryError('id recorder failed: %r' % v)
                if sched == 'same_second' and v.get('distinct_start_seconds') != 1:
                    vcheck.log('writers did not start within one second; schedule class not realised this round')
                acc, matched = validate_trace(trace)
                events = [json.loads(l) for l in open(trace)]
                case = {'m': 'ids', 'schedule': sched, 'procs': k, 'ids_per_proc': n, 'events': len(events), 'creates': v.get('creates'),
                        'distinct_start_seconds': v.get('distinct_start_seconds'), 'round': rnd}
                chk.judged(case, n=v.get('creates', 1))
                chk.traces_validated += 1
                if not acc:
                    bad = events[matched] if matched < len(events) else None
                    full = dict(case); full['trace'] = events[:matched + 1]
                    chk.violations.append((full, {'v': 'rejected', 'what': 'recorded trace rejected at event %d: %s' % (matched + 1, json.dumps(bad)[:300])}))
    finally:
        shutil.rmtree(tdir, ignore_errors=True)
    # 3. id stability under every create / delete / re-create / reopen history, with names that look like UUIDs
    #    (ids are bound to model entities at creation; any later change shows up as an unknown entity)
    import file_common
    t = 't' if chk.thorough else 'q'
    file_common.run_file_check(chk, ['c03a_' + t, 'c03c_' + t, 'c12a_' + t], [], judge=lambda r: r['step']['a'] in ('Create', 'Open'),
                               opts={'names': 2, 'ignore_handles': True, 'touch_retained': True}, coverage=['Create:reject', 'Open'])
    chk.traces_validated += 0
    chk.exhaustive = False
    chk.rule = ('TLC: all interleavings of 3 contexts (start / fork / thread / create / exit), 4 ids, 4 generators: collisions found for the designs "time" (same second), '
                '"entropy_once" (after fork) and "per_thread" (threads of one process), none for per-call entropy; '
                'recorded executions: one per schedule class and round (same second via barrier at a second boundary, restart within a second, '
                'sequential sessions on one file, children forked from a process that already issued ids, threads of one process one after the other, one long-lived process drawing some 10^4 ids%s), %d writers x %d entity creations of every kind; evaluations = ids issued, distinct = traces') % (
                ', different seconds' if chk.thorough else '', K, N)
    chk.assumptions += ['uniqueness of entropy seeds is an assumption of the model; the verdict on the code comes from the validated traces of real processes',
                        'id stability within a session and across reopen is additionally part of every NixFile replay (ids are bound at creation)',
                        'trusted: TLC, harness/h_ids.cpp, the kernel entropy source']
