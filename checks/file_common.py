"""NixFile.tla -> emitted transitions -> nixreplay 'file' handler; shared by C02, C03, C04, C08, C09, C11, C20."""
import vcheck

def replay_one(chk, rp, replay):
    v = rp.single(replay)
    chk.judged(replay)
    if v.get('v') not in ('ok',):
        chk.disagreement(replay, v, rp)

def run_file_check(chk, cfgs, sims=(), opts=None, judge=None, workers=12, replay=None, coverage=()):
    """cfgs: BFS configurations (names after MC_NixFile_); sims: (cfg, num, depth) simulation runs."""
    binary = vcheck.ensure_build('plain')
    o = {'names': chk.seed}
    o.update(opts or {})
    rp = vcheck.Replayer(binary, seed=chk.seed, opts=o, chunk=300, timeout_per_line=30)
    if replay is not None:
        replay_one(chk, rp, replay)
        return
    exhaustive = True
    import collections
    seen_actions = collections.Counter()

    def tap(run):
        for r in run:
            if judge is None or judge(r):
                seen_actions[r['step']['a'] + ':' + r['step']['res']] += 1
                for st in r['pre']:
                    seen_actions['pre:' + st['a']] += 1
                yield r

    for c in cfgs:
        run = vcheck.TlcRun('NixFile', 'MC_NixFile_%s.cfg' % c, workers=workers, timeout=3000, heap='12g', coverage=False)
        recs, verdicts = rp.run(tap(run))
        run.require_ok()
        chk.note_tlc(run)
        chk.absorb(recs, verdicts, rp)
        if run.truncated:
            exhaustive = False
    # vacuity guard: the actions the property is about must have occurred (as judged step or inside histories)
    for a in coverage:
        if not any(k == a or k.startswith(a + ':') for k in seen_actions):
            raise vcheck.MachineryError('action %s never occurred in the explored behaviours: %s' % (a, dict(seen_actions)))
    chk.extra['actions_seen'] = dict(seen_actions)
    for (c, num, depth) in sims:
        run = vcheck.TlcRun('NixFile', 'MC_NixFile_%s.cfg' % c, workers=4, simulate=num, depth=depth, seed=chk.seed + 1, timeout=3000, coverage=False)
        recs, verdicts = rp.run(tap(run))
        if run.errors:
            raise vcheck.MachineryError('TLC simulation failed: %s' % run.errors[:5])
        run.generated = run.lines
        chk.note_tlc(run)
        chk.absorb(recs, verdicts, rp)
    chk.exhaustive = exhaustive and not sims
    chk.traces_validated = len(chk.distinct)
    chk.extra['name_dictionary'] = chk.seed % 6
    chk.assumptions += ['abstract names / types / attribute stamps are concretised through finite dictionaries (6 name dictionaries, chosen by VERIF_SEED)',
                        'trusted: TLC, harness/h_file.cpp (executor + observer), HDF5 1.10']
