"""NixFile.tla -> emitted transitions -> nixreplay 'file' handler; shared by C02, C03, C04, C08, C09, C11, C20."""
import vcheck

def replay_one(chk, rp, replay):
    v = rp.single(replay)
    chk.judged(replay)
    if v.get('v') not in ('ok',):
        chk.disagreement(replay, v, rp)

def run_file_check(chk, cfgs, sims=(), opts=None, judge=None, workers=12, replay=None, coverage=()):
    """cfgs: BFS configurations (names after MC_NixFile_); sims: (cfg, num, depth) simulation runs."""
    binary = vcheck.ensure_build('plain')
    # ballast (9 extra members per owning container in one line of six) triples the run time and is off unless VERIF_BALLAST=1
    import os as _os
    o = {'names': chk.seed, 'ballast': -1 if _os.environ.get('VERIF_BALLAST') == '1' else 0}
    o.update(opts or {})
    rp = vcheck.Replayer(binary, seed=chk.seed, opts=o, chunk=300, timeout_per_line=30)
    if replay is not None:
        if '_fopts' in replay:      # the line was produced by a pass with its own options (name dictionary ...)
            rp = vcheck.Replayer(binary, seed=chk.seed, opts=replay['_fopts'], chunk=300, timeout_per_line=30)
        replay_one(chk, rp, replay)
        return
    exhaustive = True
    import collections
    seen_actions = collections.Counter()

    def tap(run):
        for r in run:
            if judge is None or judge(r):
                r['_fopts'] = o
                seen_actions[r['step']['a'] + ':' + r['step']['res']] += 1
                for st in r['pre']:
                    seen_actions['pre:' + st['a']] += 1
                yield r

    for c in cfgs:
        import time as _t; _t0 = _t.time()
        run = vcheck.TlcRun('NixFile', 'MC_NixFile_%s.cfg' % c, workers=workers, timeout=3000, heap='12g', coverage=False)
        recs, verdicts = rp.run(tap(run))
        run.require_ok()
        print('[check]   NixFile %s: %d cases in %.1fs' % (c, len(recs), _t.time() - _t0), flush=True)
        chk.note_tlc(run)
        chk.absorb(recs, verdicts, rp)
        if run.truncated:
            exhaustive = False
    # vacuity guard: the actions the property is about must have occurred (as judged step or inside histories)
    for a in coverage:
        if not any(k == a or k.startswith(a + ':') for k in seen_actions):
            raise vcheck.MachineryError('action %s never occurred in the explored behaviours: %s' % (a, dict(seen_actions)))
    chk.extra['actions_seen'] = dict(seen_actions)
    for (c, num, depth) in sims:
        run = vcheck.TlcRun('NixFile', 'MC_NixFile_%s.cfg' % c, workers=4, simulate=num, depth=depth, seed=chk.seed + 1, timeout=3000, coverage=False)
        recs, verdicts = rp.run(tap(run))
        if run.errors:
            raise vcheck.MachineryError('TLC simulation failed: %s' % run.errors[:5])
        run.generated = run.lines
        chk.note_tlc(run)
        chk.absorb(recs, verdicts, rp)
    chk.exhaustive = exhaustive and not sims
    chk.traces_validated = len(chk.distinct)
    chk.extra['name_dictionary'] = chk.seed % 6
    chk.extra['ballast'] = 'none' if o['ballast'] == 0 else 'one line in six: 9 extra members in every owning container of the file, of blocks, sections and sources (past the compact-storage threshold of 8 links)'
    chk.assumptions += ['abstract names / types / attribute stamps are concretised through finite dictionaries (6 name dictionaries, chosen by VERIF_SEED)',
                        'trusted: TLC, harness/h_file.cpp (executor + observer), HDF5 1.10']


# --------------------------------------------------------------------------- direction B: recorded random executions
import json, os, re, shutil, subprocess
from concurrent.futures import ThreadPoolExecutor

def _validate(trace):
    meta = '%s/tlc/%s' % (vcheck.BUILD, os.path.basename(trace))
    os.makedirs(meta, exist_ok=True)
    env = dict(os.environ); env['TRACE'] = trace
    p = subprocess.run(['timeout', '900', 'java', '-XX:+UseParallelGC', '-Xmx3g', '-cp', vcheck.JAR, 'tlc2.TLC', '-workers', '1', '-noGenerateSpecTE',
                        '-metadir', meta, '-config', 'MC_NixFileTrace.cfg', 'NixFileTrace.tla'], cwd=vcheck.SPEC, env=env, capture_output=True, text=True)
    shutil.rmtree(meta, ignore_errors=True)
    m = re.search(r'depth of the complete state graph search is (\d+)', p.stdout)
    depth = int(m.group(1)) if m else 0
    if 'Invariant NotAccepted is violated' in p.stdout:
        return True, depth - 1, ''
    if 'No error has been found' in p.stdout:
        return False, depth - 1, ''
    other = [l for l in p.stdout.split('\n') if l.startswith('Error:') or 'is violated' in l]
    return False, depth - 1, '; '.join(other[:3]) or p.stdout[-800:]

def run_traces(chk, judge_event, n_traces, steps, replay=None):
    """records random API programs with the harness driver and validates them against NixFileTrace.tla.
    judge_event(event) tells whether a rejected event belongs to this property's facet."""
    binary = vcheck.ensure_build('plain')
    tdir = '%s/work/traces-%s-%d' % (vcheck.BUILD, chk.pid, os.getpid())
    os.makedirs(tdir, exist_ok=True)
    params = []
    if replay is not None:
        params = [replay['driver']]
    else:
        for i in range(n_traces):
            params.append({'steps': steps, 'seed': chk.seed * 1000 + i + 1, 'names': 3 + (i % 4), 'max_entities': 25 + 10 * (i % 3), 'dict': (chk.seed + i) % 6})
    def one(prm):
        trace = '%s/t%d.ndjson' % (tdir, prm['seed'])
        rp = vcheck.Replayer(binary, seed=prm['dict'], opts={'names': prm['dict']}, jobs=1, chunk=1, timeout_per_line=600)
        v = rp.single({'m': 'drive', 'steps': prm['steps'], 'seed': prm['seed'], 'names': prm['names'], 'max_entities': prm['max_entities'], 'trace': trace})
        if v.get('v') != 'ok':
            return prm, None, v, None
        acc, matched, err = _validate(trace)
        events = [json.loads(l) for l in open(trace)]
        return prm, (acc, matched, err), v, events
    try:
        with ThreadPoolExecutor(8) as ex:
            results = list(ex.map(one, params))
        for prm, verdict, v, events in results:
            if verdict is None:
                if v.get('v') == 'crash':
                    chk.violations.append(({'m': 'trace', 'driver': prm}, {'v': 'crash', 'what': 'the library crashed while the random driver ran: rc=%s' % v.get('rc')}))
                    continue
                raise vcheck.MachineryError('trace recorder failed: %r' % v)
            acc, matched, err = verdict
            judged = [e for e in events[:matched] if judge_event(e)]
            case = {'m': 'trace', 'driver': prm, 'events': len(events), 'accepted_events': matched, 'judged_events': len(judged)}
            chk.judged(case, n=max(1, len(judged)))
            chk.traces_validated += 1
            chk.extra['trace_events_validated'] = chk.extra.get('trace_events_validated', 0) + matched
            if acc:
                continue
            if err and 'NotAccepted' not in err and matched >= len(events):
                raise vcheck.MachineryError('trace validation error: ' + err)
            bad = events[matched] if matched < len(events) else None
            if bad is not None and (judge_event(bad) or err):
                bad2 = dict(bad); bad2.pop('obs', None)
                chk.violations.append((dict(case, rejected_event=bad2), {'v': 'rejected', 'what': 'recorded execution is not a behaviour of NixFile at event %d: %s %s' % (matched + 1, json.dumps(bad2)[:300], err)}))
            else:
                chk.extra['trace_rejections_outside_facet'] = chk.extra.get('trace_rejections_outside_facet', 0) + 1
    finally:
        shutil.rmtree(tdir, ignore_errors=True)
