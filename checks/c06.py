"""C06 MultiTag retrieval returns exactly region i for position index i.
Spec: NixRetrieval.tla (MultiRegion / MultiList / FeatureRegionMulti; ListEqualsSingles, IndexBeyondIsError).
Binding: positions / extents arrays built from the case's rows, retrieval through util::taggedData (index list by array and by
reference index), single retrievals, MultiTag::taggedData with the default (exclusive) mode, featureData for every link type;
elements or error compared, the list call against the singles."""
import retr_common

def run(chk, replay=None):
    chk.rule = ('1-D data: 1-2 rows from 5 request classes x every index list of length <=2 (incl. index = N) + full list x extents '
                'present/absent x mode x 3 dimension kinds; 2-D data: 2 rows x 4x4 request classes, positions with 2 and with 1 column '
                '(rest unspecified); indexed / tagged / untagged features; each case on every concrete axis of the dictionary')
    retr_common.run_retr(chk, ['multi'], replay=replay)
