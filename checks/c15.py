"""C15 DataFrame cells round trip through row, cell and column access.
Spec: NixFrame.tla (SetRows / WriteRow / WriteCells / WriteColumn / Reopen; WriteFrame = last write wins per cell,
ResizeKeeps, RejectFrame checked by TLC).  Binding: every transition is executed on a real DataFrame whose column types rotate
over the 7 cell types by seed (plus never-written extra columns); afterwards the schema and EVERY cell are read back through
readRow, readCell (index and name), readCells and readColumn (resize on/off, with offset) and compared."""
import vcheck

def run(chk, replay=None):
    binary = vcheck.ensure_build('plain')
    t = 't' if chk.thorough else 'q'
    cols = 3 if chk.thorough else 2
    if replay is not None:
        cells = (replay.get('post') or {}).get('cells') or []
        rp = vcheck.Replayer(binary, seed=chk.seed, opts={'cols': len(cells[0]) if cells else cols})
        v = rp.single(replay); chk.judged(replay)
        if v.get('v') != 'ok':
            chk.disagreement(replay, v, rp)
        return
    seeds = range(7) if chk.thorough else [chk.seed, chk.seed + 3]
    for sd in seeds:
        rp = vcheck.Replayer(binary, seed=sd, opts={'cols': cols, 'extra_cols': 5 if chk.thorough else 2}, chunk=100)
        run_ = vcheck.TlcRun('NixFrame', 'MC_NixFrame_%s.cfg' % t, workers=8, coverage=False)
        recs, verdicts = rp.run(r for r in run_)
        run_.require_ok()
        if run_.lines == 0:
            raise vcheck.MachineryError('no transition emitted by NixFrame')
        chk.note_tlc(run_)
        chk.absorb(recs, verdicts, rp)
    chk.exhaustive = True
    rp_sim = vcheck.Replayer(binary, seed=chk.seed, opts={'cols': 2, 'extra_cols': 5 if chk.thorough else 2}, chunk=100)      # the simulation configuration has 2 model columns in both tiers
    vcheck.absorb_sim(chk, rp_sim, 'NixFrame', 'MC_NixFrame_sim.cfg', 300 if chk.thorough else 30, 20)
    chk.traces_validated = len(chk.distinct)
    chk.rule = ('one case per transition of all rows(n) / writeRow / writeCells / writeColumn(offset,count) / reopen histories (BFS exhaustive: %d model columns, '
                '<=%d rows, depth %d) plus every step of long random histories (depth 20), incl. writes past the last row; executed per column-type rotation (seed); every cell read through readRow, readCell, readCells and every readColumn overload x offset x count') % (cols, 3, 5 if chk.thorough else 4)
    chk.assumptions += ['cell values from a per-type dictionary; Bool columns are written cell-wise (std::vector<bool> cannot be passed to writeColumn)', 'trusted: TLC, harness/h_frame.cpp']
