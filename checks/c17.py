"""C17 position-based slices and DataView windows address exactly their region.
Slices: NixRetrieval.tla SliceRegion (same per-dimension rule as tags; start > end, empty and out-of-data regions are
errors, more entries than dimensions is an error, unspecified dimensions in full) -> util::dataSlice, elements compared.
DataView windows: NixData.tla (View actions; ViewFrame) -> see checks/data_common.py (part 'view')."""
import retr_common

def run(chk, replay=None):
    chk.rule = ('slices: every rank-1 (kind, n<=3, data length, start code, end code, zero-width or not, mode) exhaustively + rank 2-3 '
                'combinations with start/end vectors of length 0..rank+1, each on every concrete axis of the dictionary')
    if replay is not None and replay.get('m') != 'retr':
        import data_common
        return data_common.run_data(chk, ['view'], replay=replay)
    retr_common.run_retr(chk, ['slice'], replay=replay)
    try:
        import data_common
        data_common.run_data(chk, ['view'])
    except ImportError:
        chk.extra['dataview_part'] = 'not built yet'
