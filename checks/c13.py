"""C13 dimension descriptors are gap-free, faithful, and aliases mirror their array.
Spec: NixDims.tla (append / setters / delete-all / array-side writes / reopen; TicksSorted, IntervalPositive, UnitsSI, AliasAlone,
AliasMirrors, DeleteAllLeavesNone, AppendFrameProp, RejectFrame checked by TLC).  Binding: every transition of the bounded
histories is executed on a real DataArray (rank 2 numeric; rank 1 numeric with alias; rank 1 string) and every getter of every
descriptor, the numbering, and the array's label / unit / data are compared, in the session and after close + reopen."""
import dims_common

def run(chk, replay=None):
    chk.rule = ('one case per transition of all append / modify / delete-all / array-write / reopen histories (BFS exhaustive: up to 2-3 descriptors, '
                'depth 3-5) incl. every illegal value at every entry point (unsorted / empty ticks, interval <= 0, non-SI unit, empty label, missing '
                'frame column, alias preconditions); observation = all getters of all descriptors + array label/unit/data, also after reopen')
    dims_common.run_dims(chk, replay=replay)
