"""NixData.tla -> emitted transitions -> nixreplay 'data' handler (C01; C17 DataView part)."""
import vcheck
ALLTYPES = ["Bool", "Int8", "Int16", "Int32", "Int64", "UInt8", "UInt16", "UInt32", "UInt64", "Float", "Double", "String"]

def run_data(chk, parts, replay=None):
    binary = vcheck.ensure_build('plain')
    if chk.thorough:
        opts = {'types': ALLTYPES, 'compressions': ['None', 'Deflate', 'Auto']}
    else:
        opts = {'rotate': True}        # per line: Double + String/Bool + one more type, one compression setting, all rotating with the line
    rp = vcheck.Replayer(binary, seed=chk.seed, opts=opts, chunk=60, timeout_per_line=60)
    if replay is not None:
        v = rp.single(replay)
        chk.judged(replay, n=v.get('n', 1))
        if v.get('v') != 'ok':
            chk.disagreement(replay, v, rp)
        return
    t = 't' if chk.thorough else 'q'
    cfgs = []
    if 'array' in parts:
        cfgs += ['r1_' + t, 'r2_' + t, 'r3_' + t] + (['r4_t'] if chk.thorough else [])
    if 'view' in parts:
        cfgs += ['view1_' + t, 'view2_' + t]
    for c in cfgs:
        run = vcheck.TlcRun('NixData', 'MC_NixData_%s.cfg' % c, workers=8, coverage=False)
        recs, verdicts = rp.run(r for r in run)
        run.require_ok()
        if run.lines == 0:
            raise vcheck.MachineryError('no transition emitted by ' + c)
        chk.note_tlc(run)
        chk.absorb(recs, verdicts, rp)
    chk.exhaustive = True
    # long random histories on the same array (beyond the BFS depth)
    sims = (['r1_sim', 'r2_sim'] if 'array' in parts else []) + (['view1_sim'] if 'view' in parts else [])
    for c in sims:
        vcheck.absorb_sim(chk, rp, 'NixData', 'MC_NixData_%s.cfg' % c, 240 if chk.thorough else 24, 24)
    chk.traces_validated = len(chk.distinct)
    chk.extra['element_types'] = opts.get('types', 'Double + String or Bool + one of the 12 types, rotating with the line')
    chk.extra['compressions'] = opts.get('compressions', 'None / DeflateNormal / file-level Auto, rotating with the line')
    chk.assumptions += ['element values come from per-type dictionaries (code 0 = fill value; integers exact, floats halves/quarters, strings short/long/UTF-8 by seed); '
                        'fidelity for values outside the dictionaries is not decided',
                        'calibrated reads are compared exactly (coefficients and values are small dyadic numbers, so the polynomial is exact in double)',
                        'trusted: TLC, harness/h_data.cpp']
