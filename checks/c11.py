"""C11 after close or flush the file on disk is complete and released.
Spec: NixFile.tla (Flush / Close save the tree; Crash loses the session, keeps disk iff nothing was modified since the last
flush; DurableAfterFlush, FlushSaves, CloseSaves; after Close every earlier handle is dead).  Binding: the history runs in a
child process that kills itself with SIGKILL at the Crash step while holding handles to every entity created in the session;
the parent reopens (rw / ro / Overwrite) and compares the full observation; after Close every retained handle must throw on a
getter and on a mutator, and the file must reopen in the same process.  On every third line a second File object on the same
path is open (read-only) in the process while the session closes, and is closed right before / after it."""
import file_common

def run(chk, replay=None):
    t = 't' if chk.thorough else 'q'
    cfgs = ['c11a_' + t, 'c11b_' + t, 'c11c_' + t]
    sims = [('all_life', 2500 if chk.thorough else 200, 30)]
    def judge(r):
        a = r['step']['a']
        if a in ('Close', 'Crash'):
            return True
        if a == 'Open':
            return True
        return False
    chk.rule = ('one case per Close / Crash / Open transition of every history of the bounded universe with up to 4 life-cycle events '
                '(flush, close, crash = SIGKILL of the writing child process, reopen in rw / ro / overwrite), BFS exhaustive within bounds, plus '
                'such steps of random behaviours over the whole vocabulary; crash points = every operation boundary at which nothing was '
                'modified since the last flush / open')
    file_common.run_file_check(chk, cfgs, sims, judge=judge, replay=replay, opts={'two_files': True}, coverage=['Close', 'Crash', 'Open', 'pre:Flush', 'pre:Crash'])
    chk.exhaustive = False
