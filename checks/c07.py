"""C07 position-to-index conversion.  Spec: NixAxis.tla (IndexOf / RangeOf on order-abstracted axes; RoundTrip, Between,
Monotone, PairExact, PairValidity checked by TLC on every case).  Binding: each case is instantiated on a dictionary of
concrete sampled / range / set / data-frame axes (coordinates computed by the harness), positions on, one ulp beside,
between and beyond the coordinates, through indexOf (scalar + vector) and util::positionToIndex."""
import vcheck

def run(chk, replay=None):
    binary = vcheck.ensure_build('plain')
    opts = {'axes': 'all', 'sweep': 1 if chk.thorough else 53}
    rp = vcheck.Replayer(binary, seed=chk.seed, opts=opts, chunk=60)
    if replay is not None:
        v = rp.single(replay)
        chk.judged(replay, n=v.get('n', 1))
        if v.get('v') != 'ok':
            chk.disagreement(replay, v, rp)
        return
    cfg = 'MC_NixAxis_thorough.cfg' if chk.thorough else 'MC_NixAxis.cfg'   # MaxN = 5 / 3
    run = vcheck.TlcRun('NixAxis', cfg, workers=8)
    recs, verdicts = rp.run(r for r in run)
    run.require_ok()
    run.require_coverage(['Eval'])
    chk.note_tlc(run)
    chk.absorb(recs, verdicts, rp)
    chk.exhaustive = True
    chk.traces_validated = len(chk.distinct)
    chk.rule = ('one abstract case per (descriptor kind, window size n<=%d, neighbour below?, position code, rule) and per '
                '(start code, end code, mode), all enumerated by TLC; each executed on every concrete axis of the dictionary '
                '(%s) and every position variant (on / midpoint / ulp+ / ulp- / beyond); evaluations = concrete library calls, '
                'distinct_nontrivial = abstract cases') % (5 if chk.thorough else 3, 'all 42 sampled axes, 4 tick families, sample-index sweep stride %d up to 10^4' % opts['sweep'])
    chk.assumptions += ['coordinates of sampled axes are double(i)*interval+offset (checked against positionAt), ticks as given',
                        'concrete axes are a finite dictionary: 7 intervals x 6 offsets, window bases {0,1,7,99,1000,9999}, 4 tick families']
