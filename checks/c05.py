"""C05 Tag retrieval returns exactly the tagged region.
Spec: NixRetrieval.tla (DimRegion / Region / FeatureRegionTag on NixAxisDefs; meta-properties ExactOneDim, PointIsGE,
UnspecifiedIsFull, InsideData checked by TLC on every case).  Binding: one implementation test per case per concrete axis:
array with data = linear index, tag with concrete position / extent, util::taggedData (by array, by reference index),
Tag::taggedData, getOffsetAndCount, featureData for every link type; returned ELEMENTS (not only shapes) or the error compared."""
import retr_common

def run(chk, replay=None):
    chk.rule = ('rank-1: every (descriptor kind, n<=3 coordinates, data length 1..n+1, start code, end code, extent absent/zero/present, mode) '
                'exhaustively; rank 2-3: every pair of 5 dimension kinds x 8 request classes per dimension (incl. empty, beyond data, start>end, '
                'point fallback, whole axis) x entry-vector lengths 0..rank+1 x extents present/absent x mode, 3 triples; tag features x 3 link '
                'types; each case on every concrete axis of the dictionary and all position variants (on / mid / ulp) for rank 1; '
                'evaluations = library calls, distinct_nontrivial = abstract cases')
    retr_common.run_retr(chk, ['tag1', 'tagn'], judge=lambda r: r['c']['t'] in ('tag', 'ftag'), replay=replay)
