------------------------------ MODULE NixDims ------------------------------
(***************************************************************************)
(* The dimension descriptor list of one DataArray (C13; rejected calls     *)
(* also serve C08).  Descriptors are numbered 1..n in append order; each   *)
(* kind carries its own scalars; an alias range dimension has none of its  *)
(* own: ticks, label and unit ARE the array's data, label and unit.        *)
(* Values are abstract codes (0 = not set); the harness maps them:         *)
(*   interval 1 -> 0.5, 2 -> 2.0, bad: -1 -> 0.0, -2 -> -1.0               *)
(*   offset   0 -> none, 1 -> 1.5, 2 -> -2.5                               *)
(*   ticks    1 -> {1, 2, 4}, 2 -> {0, 3}, bad: -1 -> {3, 1, 2}, -2 -> {}    *)
(*   unit     0 -> none, 1 -> "ms", 2 -> "mV", bad: -1 -> "foo"            *)
(*   label    0 -> none, 1 -> "time", 2 -> "dist", bad: -1 -> ""           *)
(*   labels   0 -> {}, 1 -> {"a","b"}, 2 -> {"x"}                          *)
(***************************************************************************)
EXTENDS NixCommon

CONSTANTS MaxDims, MaxSteps, Acts,
          ArrRank,      \* rank of the array (alias dimensions need 1)
          Numeric       \* element type of the array is numeric

VARIABLES dims,     \* Seq of descriptor records
          arr,      \* the array's own [label, unit, data] (what an alias dimension mirrors)
          steps, last, hist
vars == <<dims, arr, steps, last, hist>>

Good == {1, 2}
Dim(k) == [k |-> k, labels |-> 0, interval |-> 0, offset |-> 0, ticks |-> 0, label |-> 0, unit |-> 0, col |-> NONE]

Call(a, i, v, res) == [a |-> a, i |-> i, v |-> v, res |-> res]
Step(c) == last' = c /\ hist' = Append(hist, c) /\ steps' = steps + 1
Reject(a, i, v) == UNCHANGED <<dims, arr>> /\ Step(Call(a, i, v, "reject"))
Ok(a, i, v, d2, a2) == dims' = d2 /\ arr' = a2 /\ Step(Call(a, i, v, "ok"))
Room == steps < MaxSteps

HasAlias == Len(dims) = 1 /\ dims[1].k = "alias"

\* v = [labels] / [interval, label, unit, offset] / [ticks, label, unit] / [col]: argument records
AppendSet(l) ==
  /\ Room /\ Len(dims) < MaxDims
  /\ Ok("AppendSet", 0, [x |-> l, y |-> 0, z |-> 0, w |-> 0], Append(dims, [Dim("set") EXCEPT !.labels = l]), arr)

\* every entry point enforces: interval > 0, SI unit
AppendSampled(iv, lab, un, off) ==
  LET v == [x |-> iv, y |-> lab, z |-> un, w |-> off] IN
  /\ Room /\ Len(dims) < MaxDims
  /\ IF iv \notin Good \/ un = -1 THEN Reject("AppendSampled", 0, v)
     ELSE Ok("AppendSampled", 0, v, Append(dims, [Dim("sampled") EXCEPT !.interval = iv, !.label = lab, !.unit = un, !.offset = off]), arr)

\* every entry point enforces: ticks non-empty and ascending, SI unit
AppendRange(t, lab, un) ==
  LET v == [x |-> t, y |-> lab, z |-> un, w |-> 0] IN
  /\ Room /\ Len(dims) < MaxDims
  /\ IF t \notin Good \/ un = -1 THEN Reject("AppendRange", 0, v)
     ELSE Ok("AppendRange", 0, v, Append(dims, [Dim("range") EXCEPT !.ticks = t, !.label = lab, !.unit = un]), arr)

\* alias: only for 1-D numeric arrays without other descriptors and with an SI (or no) unit
AppendAlias ==
  LET v == [x |-> 0, y |-> 0, z |-> 0, w |-> 0] IN
  /\ Room
  /\ IF ArrRank # 1 \/ ~Numeric \/ Len(dims) > 0 \/ arr.unit = -1 THEN Reject("AppendAlias", 0, v)
     ELSE Ok("AppendAlias", 0, v, <<Dim("alias")>>, arr)

\* data-frame dimension: column 0 / 1, no column (NONE = whole frame), a column that does not exist (9), or the column index
\* just past the last column (2 = number of columns): the library accepts that one (its pre-check is "index > number of columns");
\* modelled as the code behaves (named deviation BoundaryColumn) - the descriptor reads back the index it was given
AppendFrame(col) ==
  LET v == [x |-> col, y |-> 0, z |-> 0, w |-> 0] IN
  /\ Room /\ Len(dims) < MaxDims
  /\ IF col = 9 THEN Reject("AppendFrame", 0, v)
     ELSE Ok("AppendFrame", 0, v, Append(dims, [Dim("frame") EXCEPT !.col = col]), arr)

DeleteAll == /\ Room /\ Len(dims) > 0 /\ Ok("DeleteAll", 0, [x |-> 0, y |-> 0, z |-> 0, w |-> 0], <<>>, arr)

\* setters on descriptor i (field f); through an alias they act on the array itself
Set(i, f, val) ==
  LET v == [x |-> val, y |-> 0, z |-> 0, w |-> 0]
      k == dims[i].k
      a == "Set_" \o f IN
  /\ Room /\ i \in 1..Len(dims)
  /\ \/ f = "labels" /\ k = "set" /\ val \in {0, 1, 2}
     \/ f = "interval" /\ k = "sampled" /\ val \in {1, 2, -1, -2}
     \/ f = "offset" /\ k = "sampled" /\ val \in {0, 1, 2}
     \/ f = "ticks" /\ k \in {"range", "alias"} /\ val \in {1, 2, -1}
     \/ f = "label" /\ k \in {"set", "sampled", "range", "alias"} /\ val \in {0, 1, 2, -1}
     \/ f = "unit" /\ k \in {"sampled", "range", "alias"} /\ val \in {0, 1, 2, -1}
  /\ IF val < 0 THEN Reject(a, i, v)
     ELSE IF k = "alias" THEN
            Ok(a, i, v, dims, CASE f = "ticks" -> [arr EXCEPT !.data = val]
                                [] f = "label" -> [arr EXCEPT !.label = val]
                                [] f = "unit"  -> [arr EXCEPT !.unit = val])
     ELSE Ok(a, i, v, [dims EXCEPT ![i] = CASE f = "labels" -> [@ EXCEPT !.labels = val]
                                             [] f = "interval" -> [@ EXCEPT !.interval = val]
                                             [] f = "offset" -> [@ EXCEPT !.offset = val]
                                             [] f = "ticks" -> [@ EXCEPT !.ticks = val]
                                             [] f = "label" -> [@ EXCEPT !.label = val]
                                             [] f = "unit" -> [@ EXCEPT !.unit = val]], arr)

\* array-side writes (the other direction of the alias mirror); a non-SI array unit is refused while an alias exists
SetArr(f, val) ==
  LET v == [x |-> val, y |-> 0, z |-> 0, w |-> 0]  a == "SetArr_" \o f IN
  /\ Room /\ f \in {"label", "unit", "data"}
  /\ (f = "data" => val \in {1, 2}) /\ (f = "label" => val \in {0, 1, 2}) /\ (f = "unit" => val \in {0, 1, 2, -1})
  /\ (f = "data" => ArrRank = 1 /\ Numeric)
  /\ IF f = "unit" /\ val = -1 /\ HasAlias THEN Reject(a, 0, v)
     ELSE Ok(a, 0, v, dims, CASE f = "label" -> [arr EXCEPT !.label = val] [] f = "unit" -> [arr EXCEPT !.unit = val]
                               [] f = "data" -> [arr EXCEPT !.data = val])

Reopen == /\ Room /\ UNCHANGED <<dims, arr>> /\ Step(Call("Reopen", 0, [x |-> 0, y |-> 0, z |-> 0, w |-> 0], "ok"))

Init == dims = <<>> /\ arr = [label |-> 0, unit |-> 0, data |-> 0] /\ steps = 0
        /\ last = Call("Init", 0, [x |-> 0, y |-> 0, z |-> 0, w |-> 0], "ok") /\ hist = <<>>

Next ==
  \/ "Set" \in Acts /\ \E l \in {0, 1} : AppendSet(l)
  \/ "Sampled" \in Acts /\ \E iv \in {1, -1, -2}, lab \in {0, 1}, un \in {0, 1, -1}, off \in {0, 1, 2} : AppendSampled(iv, lab, un, off)
  \/ "Range" \in Acts /\ \E t \in {1, -1, -2}, lab \in {0, 2}, un \in {0, 2, -1} : AppendRange(t, lab, un)
  \/ "Alias" \in Acts /\ AppendAlias
  \/ "Frame" \in Acts /\ \E col \in {0, 1, 2, NONE, 9} : AppendFrame(col)
  \/ "Delete" \in Acts /\ DeleteAll
  \/ "Setters" \in Acts /\ \E i \in 1..MaxDims, f \in {"labels", "interval", "offset", "ticks", "label", "unit"}, val \in {-2, -1, 0, 1, 2} : Set(i, f, val)
  \/ "Arr" \in Acts /\ \E f \in {"label", "unit", "data"}, val \in {-1, 0, 1, 2} : SetArr(f, val)
  \/ "Reopen" \in Acts /\ Reopen
Spec == Init /\ [][Next]_vars

---------------------------------------------------------------------------
\* what the getters of descriptor i return (the alias mirrors the array)
DimObs(d, a, i) ==
  IF d[i].k = "alias" THEN [d[i] EXCEPT !.ticks = a.data, !.label = a.label, !.unit = a.unit] ELSE d[i]

TicksSorted == \A i \in 1..Len(dims) : dims[i].k = "range" => dims[i].ticks \in Good
IntervalPositive == \A i \in 1..Len(dims) : dims[i].k = "sampled" => dims[i].interval \in Good
UnitsSI == \A i \in 1..Len(dims) : dims[i].unit >= 0
AliasAlone == (\E i \in 1..Len(dims) : dims[i].k = "alias") => (Len(dims) = 1 /\ ArrRank = 1 /\ Numeric)
\* both directions of the mirror: after any step the alias reads what the array holds
AliasMirrors == HasAlias => (DimObs(dims, arr, 1).ticks = arr.data /\ DimObs(dims, arr, 1).label = arr.label /\ DimObs(dims, arr, 1).unit = arr.unit)
DeleteAllLeavesNone == [][last'.a = "DeleteAll" => dims' = <<>>]_vars
RejectFrame == [][last'.res = "reject" => UNCHANGED <<dims, arr>>]_vars
\* an append adds exactly one descriptor at the end and leaves the others alone (gap-free numbering)
AppendFrameProp == [][(last'.res = "ok" /\ last'.a \in {"AppendSet", "AppendSampled", "AppendRange", "AppendFrame"}) =>
                        (Len(dims') = Len(dims) + 1 /\ SubSeq(dims', 1, Len(dims)) = dims)]_vars

ObsOf(d, a) == [dims |-> [i \in 1..Len(d) |-> DimObs(d, a, i)], arr |-> a]
View == <<dims, arr, steps>>
Emit == EmitJson([m |-> "dims", pre |-> hist, step |-> last', post |-> ObsOf(dims', arr')])
=============================================================================
