SPECIFICATION Spec
CONSTANTS
  MaxDims = 1
  MaxSteps = 2
  Acts = {"Alias", "Set"}
  ArrRank = 1
  Numeric = FALSE
INVARIANTS TicksSorted IntervalPositive UnitsSI AliasAlone AliasMirrors
PROPERTIES DeleteAllLeavesNone RejectFrame AppendFrameProp
VIEW View
ACTION_CONSTRAINT Emit
CHECK_DEADLOCK FALSE
