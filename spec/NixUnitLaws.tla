---- MODULE NixUnitLaws ----
(* Unbounded form of the scaling-exponent algebra of NixUnits (C18), for Apalache: prefix exponents and the power *)
(* range over all integers.  ScaleExp(a -> b) = w * (ea - eb).                                                    *)
EXTENDS Integers
VARIABLES
  \* @type: Int;
  ea,
  \* @type: Int;
  eb,
  \* @type: Int;
  ec,
  \* @type: Int;
  w
Exp(x, y) == w * (x - y)
Init == ea \in Int /\ eb \in Int /\ ec \in Int /\ w \in Int
Next == UNCHANGED <<ea, eb, ec, w>>
Laws == /\ Exp(ea, eb) = -Exp(eb, ea)
        /\ Exp(ea, eb) + Exp(eb, ec) = Exp(ea, ec)
        /\ Exp(ea, ea) = 0
====
