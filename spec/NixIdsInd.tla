----------------------------- MODULE NixIdsInd -----------------------------
(* Inductive invariant for the per-call entropy design of NixIds (C12), for Apalache:                                 *)
(*   apalache-mc check --config=MC_NixIds_apa.cfg --init=Init   --inv=IndInv --length=0 NixIdsInd.tla   (Init => IndInv) *)
(*   apalache-mc check --config=MC_NixIds_apa.cfg --init=IndInit --inv=IndInv --length=1 NixIdsInd.tla  (IndInv /\ Next => IndInv') *)
(* i.e. uniqueness after ANY number of steps, ids, clock ticks (TLC explores 4 ids); the symbolic start state holds an  *)
(* arbitrary set of up to 8 issued ids with arbitrary integer components.                                             *)
EXTENDS NixIds, Apalache
Inv == /\ ngen >= 0 /\ ngen <= MaxStarts
       /\ \A p \in Procs : gen[p] >= 0 /\ gen[p] <= ngen
       /\ \A p \in running : gen[p] >= 1
       /\ SeedSource = "entropy" => (~dup /\ \A id \in issued : id[1] < fresh)
IndInv == Inv
IndInit == /\ clock \in Int /\ running \in SUBSET Procs /\ gen \in [Procs -> Int] /\ seed \in [Gens -> Int] /\ ctr \in [Gens -> Int]
           /\ ngen \in Int /\ fresh \in Int /\ dup \in BOOLEAN /\ issued = Gen(8)
           /\ Inv
=============================================================================
