SPECIFICATION Spec
CONSTANTS
  Names = {"n1"}
  MaxCreates = 3
  Slots = {"blocks", "arrays", "tags", "sources", "groups"}
  LinkSlotsOn = {"refs", "esources", "garrays", "gtags"}
  OneSlotsOn = {}
  Acts = {"Create", "Link", "Close", "Open"}
  MaxLife = 2
  MaxDims = 0
  MaxSteps = 0
  MaxGen = 1
  EmitActs = {"Create", "Delete", "Open", "AddLink", "RemoveLink"}
  EmitRes = "any"
  EmitWhen = "always"
INVARIANTS TypeOK NamesUniqueInv OrderInv NoDanglingInv EidsFresh SearchEqualsBruteForce BreadthFirst BackRefsEqualBruteForce
PROPERTIES DeleteFrame RejectFrame ReadOnlyFrame ReadOnlyRejects ReopenIdentity CloseSaves DurableAfterFlush FlushSaves
VIEW View
ACTION_CONSTRAINT Emit
CHECK_DEADLOCK FALSE
