SPECIFICATION Spec
CONSTANTS
  Names = {"n1"}
  MaxCreates = 3
  Slots = {"blocks", "arrays", "mtags", "features", "sources", "groups", "frames"}
  LinkSlotsOn = {"esources", "garrays"}
  OneSlotsOn = {"extents", "data"}
  Acts = {"Create", "Delete", "Link", "One", "Attr", "Type", "Def", "Dims", "Flush", "Close", "Open"}
  MaxLife = 2
  MaxDims = 1
  MaxSteps = 7
  MaxGen = 0
  EmitActs = {"Open"}
  EmitRes = "any"
  EmitWhen = "always"
INVARIANTS TypeOK NamesUniqueInv OrderInv NoDanglingInv EidsFresh SearchEqualsBruteForce BreadthFirst BackRefsEqualBruteForce
PROPERTIES DeleteFrame RejectFrame ReadOnlyFrame ReadOnlyRejects ReopenIdentity CloseSaves DurableAfterFlush FlushSaves
VIEW View
ACTION_CONSTRAINT Emit
CHECK_DEADLOCK FALSE
