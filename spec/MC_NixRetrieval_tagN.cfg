SPECIFICATION Spec
CONSTANTS
  MaxN = 3
  Tier = "tagN"
  Cases <- AllCases
INVARIANTS ExactOneDim PointIsGE UnspecifiedIsFull InsideData ListEqualsSingles IndexBeyondIsError
ACTION_CONSTRAINT Emit
CHECK_DEADLOCK FALSE
