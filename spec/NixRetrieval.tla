---------------------------- MODULE NixRetrieval ----------------------------
(***************************************************************************)
(* Region selection by position / extent: Tag retrieval (C05), MultiTag    *)
(* retrieval (C06), position-based data slices (C17).  Built on the order- *)
(* abstracted axes of NixAxisDefs: positions are codes relative to the     *)
(* axis coordinates, regions are index blocks [off, off+cnt).              *)
(*                                                                         *)
(* A dimension of the referenced array: [k, n, d] = descriptor kind, number *)
(* of coordinates of the axis (continuing upward for unbounded kinds), and  *)
(* number of data elements along it.                                       *)
(***************************************************************************)
EXTENDS NixAxisDefs

Err == [ok |-> FALSE, off |-> 0, cnt |-> 0]
Blk(o, c) == [ok |-> TRUE, off |-> o, cnt |-> c]

\* request along one dimension:
\*   spec = FALSE            the tag / slice says nothing about this dimension  -> all elements
\*   ext = "none" | "zero"   no extent / extent exactly 0 -> the single first element at or after s
\*   ext = "pos"             region from s to e (e is the code of position + extent)
DimRegion(dim, r, m) ==
  IF ~r.spec THEN Blk(0, dim.d)
  ELSE LET g == IndexOf(dim.k, dim.n, FALSE, r.s, "GreaterOrEqual")
           rr == RangeOf(dim.k, dim.n, FALSE, r.s, r.e, m)
           raw == IF r.ext \in {"none", "zero"} THEN (IF g.some THEN Blk(g.idx, 1) ELSE Err)
                  ELSE IF r.e < r.s THEN Err
                  ELSE IF rr.some THEN Blk(rr.lo, rr.hi - rr.lo + 1) ELSE Err
       \* a block that reaches outside the stored data is an error, never a shorter block
       IN IF raw.ok /\ raw.off + raw.cnt <= dim.d THEN raw ELSE Err

\* a Tag / slice request over all dimensions: P, E, Z are the per-entry start codes, end codes and zero
\* flags (length L); entries beyond the rank are ignored, missing ones mean "unspecified"
ReqOf(P, E, Z, ext, j) ==
  IF j <= Len(P) THEN [spec |-> TRUE, s |-> P[j], e |-> E[j],
                       ext |-> IF ext = "absent" THEN "none" ELSE IF Z[j] THEN "zero" ELSE "pos"]
  ELSE [spec |-> FALSE, s |-> 0, e |-> 0, ext |-> "none"]

Region(dims, P, E, Z, ext, m) ==
  LET per == [j \in 1..Len(dims) |-> DimRegion(dims[j], ReqOf(P, E, Z, ext, j), m)]
  IN IF \A j \in 1..Len(dims) : per[j].ok THEN [ok |-> TRUE, reg |-> per] ELSE [ok |-> FALSE, reg |-> <<>>]

\* a position-based slice may not carry more entries than the data has dimensions
SliceRegion(dims, P, E, Z, m) ==
  IF Len(P) > Len(dims) THEN [ok |-> FALSE, reg |-> <<>>] ELSE Region(dims, P, E, Z, "present", m)

\* MultiTag: rows = sequence of [P, E, Z]; retrieval of index i (0-based) = region of row i
MultiRegion(dims, rows, ext, i, m) ==
  IF i >= Len(rows) THEN [ok |-> FALSE, reg |-> <<>>]
  ELSE Region(dims, rows[i + 1].P, rows[i + 1].E, rows[i + 1].Z, ext, m)

\* retrieval for a list of indices = list of the single retrievals (an error in any of them fails the call)
MultiList(dims, rows, ext, idx, m) ==
  LET per == [q \in 1..Len(idx) |-> MultiRegion(dims, rows, ext, idx[q], m)]
  IN IF \A q \in 1..Len(idx) : per[q].ok THEN [ok |-> TRUE, regs |-> [q \in 1..Len(idx) |-> per[q].reg]]
     ELSE [ok |-> FALSE, regs |-> <<>>]

\* feature data: tagged features are cut like references, untagged ones are returned whole, indexed ones
\* (multi-tags) are slice i along the first dimension; fdims = dimensions of the feature's array
FeatureRegionTag(fdims, lt, P, E, Z, ext, m) ==
  IF lt = "tagged" THEN Region(fdims, P, E, Z, ext, m)
  ELSE [ok |-> TRUE, reg |-> [j \in 1..Len(fdims) |-> Blk(0, fdims[j].d)]]
FeatureRegionMulti(fdims, lt, rows, ext, i, m) ==
  IF i >= Len(rows) THEN [ok |-> FALSE, reg |-> <<>>]
  ELSE IF lt = "tagged" THEN MultiRegion(fdims, rows, ext, i, m)
  ELSE IF lt = "untagged" THEN [ok |-> TRUE, reg |-> [j \in 1..Len(fdims) |-> Blk(0, fdims[j].d)]]
  ELSE IF i >= fdims[1].d THEN [ok |-> FALSE, reg |-> <<>>]
  ELSE [ok |-> TRUE, reg |-> [j \in 1..Len(fdims) |-> IF j = 1 THEN Blk(i, 1) ELSE Blk(0, fdims[j].d)]]

---------------------------------------------------------------------------
(* Case table: each case is an initial state, one Eval step emits case + expected result *)
CONSTANTS Cases
VARIABLES c, done
vars == <<c, done>>
Init == c \in Cases /\ done = FALSE
Eval == ~done /\ done' = TRUE /\ c' = c
Spec == Init /\ [][Eval]_vars

Res == CASE c.t = "tag"   -> Region(c.dims, c.P, c.E, c.Z, c.ext, c.m)
         [] c.t = "slice" -> SliceRegion(c.dims, c.P, c.E, c.Z, c.m)
         [] c.t = "ftag"  -> FeatureRegionTag(c.dims, c.lt, c.P, c.E, c.Z, c.ext, c.m)
         [] c.t = "mtag"  -> MultiList(c.dims, c.rows, c.ext, c.idx, c.m)
         [] c.t = "fmtag" -> FeatureRegionMulti(c.dims, c.lt, c.rows, c.ext, c.idx[1], c.m)

\* ---- meta properties of the definitions
\* the block of a specified dimension with an extent is exactly the set of data indices whose coordinate
\* lies in [s, e] (inclusive) / [s, e) (exclusive); an empty set or one reaching outside the data is an error
ExactOneDim ==
  (c.t = "tag" /\ Len(c.dims) = 1 /\ Len(c.P) >= 1 /\ c.ext = "present" /\ ~c.Z[1]) =>
     LET dm == c.dims[1]
         S == {i \in Idx(dm.k, dm.n, FALSE) : Coord(i) >= c.P[1] /\ (IF c.m = "Inclusive" THEN Coord(i) <= c.E[1] ELSE Coord(i) < c.E[1])}
     IN IF S = {} \/ SetMax(S) >= dm.d THEN ~Res.ok
        ELSE Res.ok /\ Res.reg[1].off = SetMin(S) /\ Res.reg[1].cnt = Cardinality(S)
\* zero / absent extent: the first element at or after the position, the same in both modes
PointIsGE ==
  (c.t = "tag" /\ Len(c.dims) = 1 /\ Len(c.P) >= 1 /\ (c.ext = "absent" \/ c.Z[1])) =>
     LET dm == c.dims[1]  S == {i \in Idx(dm.k, dm.n, FALSE) : Coord(i) >= c.P[1]}
     IN IF S = {} \/ SetMin(S) >= dm.d THEN ~Res.ok ELSE Res.ok /\ Res.reg[1] = Blk(SetMin(S), 1)
\* dimensions the tag does not speak about are returned in full
UnspecifiedIsFull ==
  (c.t \in {"tag", "slice"} /\ Res.ok) => \A j \in 1..Len(c.dims) : j > Len(c.P) => Res.reg[j] = Blk(0, c.dims[j].d)
\* every returned block lies inside the data and is non-empty
InsideData ==
  (c.t \in {"tag", "slice", "ftag"} /\ Res.ok) => \A j \in 1..Len(c.dims) : Res.reg[j].cnt >= 1 /\ Res.reg[j].off + Res.reg[j].cnt <= c.dims[j].d
ListEqualsSingles ==
  (c.t = "mtag") => (Res.ok <=> \A q \in 1..Len(c.idx) : MultiRegion(c.dims, c.rows, c.ext, c.idx[q], c.m).ok)
IndexBeyondIsError ==
  (c.t = "mtag" /\ \E q \in 1..Len(c.idx) : c.idx[q] >= Len(c.rows)) => ~Res.ok

Emit == EmitJson([m |-> "retr", c |-> c, res |-> Res])
=============================================================================
