SPECIFICATION TSpec
CONSTANTS
  Names = {"n1", "n2", "n3", "n4", "n5", "n6"}
  MaxCreates = 100000
  Slots = {"blocks", "sections", "arrays", "frames", "tags", "mtags", "groups", "sources", "props", "features"}
  LinkSlotsOn = {"refs", "esources", "garrays", "gframes", "gtags", "gmtags"}
  OneSlotsOn = {"metadata", "positions", "extents", "data", "link"}
  Acts = {"Create", "Delete", "Link", "One", "Attr", "Type", "Def", "Dims", "Flush", "Close", "Open"}
  MaxLife = 100000
  MaxDims = 3
  MaxSteps = 0
  MaxGen = 0
  EmitActs = {}
  EmitRes = "any"
  EmitWhen = "always"
INVARIANTS NotAccepted NamesUniqueInv OrderInv NoDanglingInv
CHECK_DEADLOCK FALSE
