SPECIFICATION Spec
CONSTANTS
  MaxDims = 3
  MaxSteps = 24
  Acts = {"Set", "Sampled", "Range", "Frame", "Delete", "Setters", "Reopen"}
  ArrRank = 2
  Numeric = TRUE
INVARIANTS TicksSorted IntervalPositive UnitsSI AliasAlone AliasMirrors
PROPERTIES DeleteAllLeavesNone RejectFrame AppendFrameProp
VIEW View
ACTION_CONSTRAINT Emit
CHECK_DEADLOCK FALSE
