SPECIFICATION Spec
CONSTANTS
  Names = {"n1"}
  MaxCreates = 4
  Slots = {"blocks", "groups", "frames", "tags"}
  LinkSlotsOn = {"gframes", "gtags"}
  OneSlotsOn = {}
  Acts = {"Create", "Link", "Close", "Open"}
  MaxLife = 2
  MaxDims = 0
  MaxSteps = 9
  MaxGen = 1
  EmitActs = {"Open"}
  EmitRes = "any"
  EmitWhen = "always"
INVARIANTS TypeOK NamesUniqueInv OrderInv NoDanglingInv EidsFresh SearchEqualsBruteForce BreadthFirst BackRefsEqualBruteForce
PROPERTIES DeleteFrame RejectFrame ReadOnlyFrame ReadOnlyRejects ReopenIdentity CloseSaves DurableAfterFlush FlushSaves
VIEW View
ACTION_CONSTRAINT Emit
CHECK_DEADLOCK FALSE
