SPECIFICATION Spec
CONSTANTS
  MaxDims = 2
  MaxSteps = 4
  Acts = {"Set", "Sampled", "Range", "Frame", "Delete", "Setters", "Reopen"}
  ArrRank = 2
  Numeric = TRUE
INVARIANTS TicksSorted IntervalPositive UnitsSI AliasAlone AliasMirrors
PROPERTIES DeleteAllLeavesNone RejectFrame AppendFrameProp
VIEW View
ACTION_CONSTRAINT Emit
CHECK_DEADLOCK FALSE
