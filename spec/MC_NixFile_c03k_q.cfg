SPECIFICATION Spec
CONSTANTS
  Names = {"n1"}
  MaxCreates = 5
  Slots = {"blocks", "arrays", "tags", "groups"}
  LinkSlotsOn = {"garrays", "gtags", "refs"}
  OneSlotsOn = {}
  Acts = {"Create", "Delete", "Link"}
  MaxLife = 0
  MaxDims = 0
  MaxSteps = 7
  MaxGen = 0
  EmitActs = {"Create", "Delete", "AddLink"}
  EmitRes = "any"
  EmitWhen = "always"
INVARIANTS TypeOK NamesUniqueInv OrderInv NoDanglingInv EidsFresh SearchEqualsBruteForce BreadthFirst BackRefsEqualBruteForce
PROPERTIES DeleteFrame RejectFrame ReadOnlyFrame ReadOnlyRejects ReopenIdentity CloseSaves DurableAfterFlush FlushSaves
VIEW View
ACTION_CONSTRAINT Emit
CHECK_DEADLOCK FALSE
