---------------------------- MODULE NixVersionOrder ----------------------------
(* Format-version algebra of include/nix/Version.hpp: lexicographic order, canRead, canWrite (C10). *)
EXTENDS Integers
\* version algebra (the design of include/nix/Version.hpp)
\* @type: (<<Int, Int, Int>>, <<Int, Int, Int>>) => Bool;
VLess(a, b) == \/ a[1] < b[1]
               \/ a[1] = b[1] /\ a[2] < b[2]
               \/ a[1] = b[1] /\ a[2] = b[2] /\ a[3] < b[3]
\* @type: (<<Int, Int, Int>>, <<Int, Int, Int>>) => Bool;
VEq(a, b)   == a[1] = b[1] /\ a[2] = b[2] /\ a[3] = b[3]
\* @type: (<<Int, Int, Int>>, <<Int, Int, Int>>) => Bool;
VLe(a, b)   == VLess(a, b) \/ VEq(a, b)
\* @type: (<<Int, Int, Int>>, <<Int, Int, Int>>) => Bool;
CanRead(lib, f)  == lib[1] = f[1] /\ lib[2] >= f[2]
\* @type: (<<Int, Int, Int>>, <<Int, Int, Int>>) => Bool;
CanWrite(lib, f) == VEq(lib, f)

\* @type: Set(<<Int, Int, Int>>) => Bool;
OrderLaws(S) ==
  /\ \A a \in S : ~VLess(a, a)
  /\ \A a, b \in S : VLess(a, b) \/ VLess(b, a) \/ VEq(a, b)
  /\ \A a, b \in S : ~(VLess(a, b) /\ VLess(b, a))
  /\ \A a, b \in S : VEq(a, b) <=> (a = b)
  /\ \A a, b \in S : VLe(a, b) <=> ~VLess(b, a)
  /\ \A a, b \in S : CanWrite(a, b) => CanRead(a, b)
\* @type: Set(<<Int, Int, Int>>) => Bool;
Transitive(S) == \A a, b, c \in S : (VLess(a, b) /\ VLess(b, c)) => VLess(a, c)

=============================================================================
