---------------------------- MODULE MC_NixVersionCmp_t ----------------------------
EXTENDS NixVersionCmp
LibV == <<1, 2, 0>>
Cube == {<<x, y, z>> : x \in (LibV[1]-3)..(LibV[1]+3), y \in (LibV[2]-3)..(LibV[2]+3), z \in (LibV[3]-3)..(LibV[3]+3)}
Ext  == {<<x, y, z>> : x \in {0, 1, 2147483647}, y \in {0, 2, 2147483647}, z \in {0, 1, 2147483647}}
\* triples that collide with (or sit next to) the library version when three components are packed into one number with base B
Mid  == UNION {{<<LibV[1], LibV[2] - 1, B>>, <<LibV[1], LibV[2] - 2, 2 * B>>, <<LibV[1] - 1, B + LibV[2], 0>>,
                <<LibV[1], LibV[2] - 1, B + 1>>, <<LibV[1], LibV[2] - 1, B - 1>>} : B \in {10, 100, 256, 1000, 1024, 65536}}
AllVersions == Cube \cup Ext \cup Mid
=============================================================================
