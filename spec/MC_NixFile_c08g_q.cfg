SPECIFICATION Spec
CONSTANTS
  Names = {"n1", "n2"}
  MaxCreates = 4
  Slots = {"blocks", "arrays", "mtags"}
  LinkSlotsOn = {}
  OneSlotsOn = {}
  Acts = {"Create", "CreateBad"}
  MaxLife = 0
  MaxDims = 0
  MaxSteps = 5
  MaxGen = 0
  EmitActs = {"CreateBad"}
  EmitRes = "reject"
  EmitWhen = "always"
INVARIANTS TypeOK NamesUniqueInv OrderInv NoDanglingInv EidsFresh SearchEqualsBruteForce BreadthFirst BackRefsEqualBruteForce
PROPERTIES DeleteFrame RejectFrame ReadOnlyFrame ReadOnlyRejects ReopenIdentity CloseSaves DurableAfterFlush FlushSaves
VIEW View
ACTION_CONSTRAINT Emit
CHECK_DEADLOCK FALSE
