SPECIFICATION Spec
CONSTANTS
  Procs = {"p1", "p2", "p3"}
  MaxClock = 1
  MaxIds = 4
  MaxStarts = 4
  SeedSource = "entropy_once"
  Acts = {"Thread"}
INVARIANT IdsUnique
CHECK_DEADLOCK FALSE
