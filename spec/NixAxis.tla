---------------------------- MODULE NixAxis ----------------------------
(***************************************************************************)
(* Position-to-index conversion along one dimension (C07; reused by the    *)
(* retrieval modules for C05, C06, C17).                                   *)
(*                                                                         *)
(* An axis is abstracted to its ORDER: n modelled coordinates with indices *)
(* 0..n-1 (relative to a window the harness places on a concrete axis),    *)
(* optionally one more coordinate below the window (lo) and - for kinds    *)
(* that continue upward without bound (sampled, set without labels) - one  *)
(* more above.  A position is a code q in 0..2n:                           *)
(*   q = 2i+1 : exactly on coordinate i                                    *)
(*   q = 2i   : strictly between coordinate i-1 and coordinate i           *)
(*   q = 0    : below coordinate 0,   q = 2n : above coordinate n-1        *)
(* The conversion rules are stated on the order only, as in the property.  *)
(***************************************************************************)
EXTENDS NixCommon

Kinds == {"sampled", "range", "setL", "set0", "frame"}
Rules == {"Less", "LessOrEqual", "Equal", "GreaterOrEqual", "Greater"}
Modes == {"Inclusive", "Exclusive"}

Coord(i) == 2 * i + 1
Unbounded(k) == k \in {"sampled", "set0"}

\* indices that exist on the abstract axis (window plus the optional neighbours)
Idx(k, n, lo) == (IF lo THEN -1 ELSE 0)..(IF Unbounded(k) THEN n ELSE n - 1)

\* result: [some |-> BOOLEAN, idx |-> Int]
NoIdx == [some |-> FALSE, idx |-> 0]
Some(i) == [some |-> TRUE, idx |-> i]

IndexOf(k, n, lo, q, r) ==
  LET I  == Idx(k, n, lo)
      LT == {i \in I : Coord(i) < q}    LE == {i \in I : Coord(i) <= q}
      EQ == {i \in I : Coord(i) = q}
      GE == {i \in I : Coord(i) >= q}   GT == {i \in I : Coord(i) > q}
  IN CASE r = "Less"           -> IF LT = {} THEN NoIdx ELSE Some(SetMax(LT))
       [] r = "LessOrEqual"    -> IF LE = {} THEN NoIdx ELSE Some(SetMax(LE))
       [] r = "Equal"          -> IF EQ = {} THEN NoIdx ELSE Some(SetMax(EQ))
       [] r = "GreaterOrEqual" -> IF GE = {} THEN NoIdx ELSE Some(SetMin(GE))
       [] r = "Greater"        -> IF GT = {} THEN NoIdx ELSE Some(SetMin(GT))

\* a start/end pair: (GE(start), LE(end)) inclusive, (GE(start), Less(end)) exclusive;
\* valid iff start <= end and the pair is ordered
RangeOf(k, n, lo, s, e, m) ==
  LET a == IndexOf(k, n, lo, s, "GreaterOrEqual")
      b == IndexOf(k, n, lo, e, IF m = "Inclusive" THEN "LessOrEqual" ELSE "Less")
  IN IF s <= e /\ a.some /\ b.some /\ a.idx <= b.idx
       THEN [some |-> TRUE, lo |-> a.idx, hi |-> b.idx]
       ELSE [some |-> FALSE, lo |-> 0, hi |-> 0]

\* RangeDimension::positionInRange
InRange(n, q) == IF n = 0 THEN "NoRange" ELSE IF q < Coord(0) THEN "Less"
                 ELSE IF q > Coord(n - 1) THEN "Greater" ELSE "InRange"

---------------------------------------------------------------------------
CONSTANTS MaxN

Codes(n, lo) == (IF lo THEN 1 ELSE 0)..(2 * n)
IndexCases == {[t |-> "index", k |-> k, n |-> n, lo |-> lo, q |-> q, r |-> r, e |-> 0, m |-> "Inclusive"] :
                 k \in Kinds, n \in 0..MaxN, lo \in BOOLEAN, q \in 0..(2 * MaxN), r \in Rules}
RangeCases == {[t |-> "range", k |-> k, n |-> n, lo |-> lo, q |-> s, r |-> "Equal", e |-> e, m |-> m] :
                 k \in Kinds, n \in 0..MaxN, lo \in BOOLEAN, s \in 0..(2 * MaxN), e \in 0..(2 * MaxN), m \in Modes}
Legal(x) == /\ x.q \in Codes(x.n, x.lo) /\ (x.t = "range" => x.e \in Codes(x.n, x.lo))
            /\ (x.n = 0 => ~x.lo)
            \* a bounded axis without any coordinate (no ticks / labels / rows): only ticks-less range
            \* dimensions are defined by the statement ("no index"); label-less sets are the kind set0
            /\ (x.n = 0 => x.k \in {"range", "sampled", "set0"})

VARIABLES c, done
vars == <<c, done>>
Init == c \in {x \in IndexCases \cup RangeCases : Legal(x)} /\ done = FALSE
Eval == ~done /\ done' = TRUE /\ c' = c
Spec == Init /\ [][Eval]_vars

Res == IF c.t = "index" THEN IndexOf(c.k, c.n, c.lo, c.q, c.r)
       ELSE RangeOf(c.k, c.n, c.lo, c.q, c.e, c.m)

\* ---- meta properties of the definitions (checked on every case)
OnCoord(q) == q % 2 = 1
\* the coordinate of sample i converts back to i (i-1 for Less, i+1 for Greater)
RoundTrip ==
  (c.t = "index" /\ OnCoord(c.q)) =>
     LET i == (c.q - 1) \div 2  I == Idx(c.k, c.n, c.lo) IN
     CASE c.r \in {"Equal", "LessOrEqual", "GreaterOrEqual"} -> Res = Some(i)
       [] c.r = "Less"    -> Res = (IF i - 1 \in I THEN Some(i - 1) ELSE NoIdx)
       [] c.r = "Greater" -> Res = (IF i + 1 \in I THEN Some(i + 1) ELSE NoIdx)
\* between two coordinates: Equal has no index; LE = Less; GE = Greater
Between ==
  (c.t = "index" /\ ~OnCoord(c.q)) =>
     /\ IndexOf(c.k, c.n, c.lo, c.q, "Equal") = NoIdx
     /\ IndexOf(c.k, c.n, c.lo, c.q, "LessOrEqual") = IndexOf(c.k, c.n, c.lo, c.q, "Less")
     /\ IndexOf(c.k, c.n, c.lo, c.q, "GreaterOrEqual") = IndexOf(c.k, c.n, c.lo, c.q, "Greater")
\* the index is monotone in the position
Monotone ==
  (c.t = "index" /\ c.q + 1 \in Codes(c.n, c.lo)) =>
     LET a == Res  b == IndexOf(c.k, c.n, c.lo, c.q + 1, c.r) IN
     (a.some /\ b.some /\ c.r # "Equal") => a.idx <= b.idx
\* a valid pair delimits exactly the coordinates inside [s,e] resp. [s,e)
PairExact ==
  (c.t = "range") =>
     LET I == Idx(c.k, c.n, c.lo)
         S == {i \in I : Coord(i) >= c.q /\ (IF c.m = "Inclusive" THEN Coord(i) <= c.e ELSE Coord(i) < c.e)} IN
     IF S = {} THEN ~Res.some ELSE Res.some /\ Res.lo = SetMin(S) /\ Res.hi = SetMax(S)
PairValidity == (c.t = "range" /\ c.e < c.q) => ~Res.some

Emit == EmitJson([m |-> "axis", c |-> c, res |-> Res, inrange |-> InRange(c.n, c.q)])
=============================================================================
