---------------------------- MODULE NixAxis ----------------------------
(* Case table of the position-to-index rules of NixAxisDefs (C07): every (kind, window, position code, rule) *)
(* and every (start, end, mode); each case is an initial state, one Eval step emits case + expected result.  *)
EXTENDS NixAxisDefs
---------------------------------------------------------------------------
CONSTANTS MaxN

Codes(n, lo) == (IF lo THEN 1 ELSE 0)..(2 * n)
IndexCases == {[t |-> "index", k |-> k, n |-> n, lo |-> lo, q |-> q, r |-> r, e |-> 0, m |-> "Inclusive"] :
                 k \in Kinds, n \in 0..MaxN, lo \in BOOLEAN, q \in 0..(2 * MaxN), r \in Rules}
RangeCases == {[t |-> "range", k |-> k, n |-> n, lo |-> lo, q |-> s, r |-> "Equal", e |-> e, m |-> m] :
                 k \in Kinds, n \in 0..MaxN, lo \in BOOLEAN, s \in 0..(2 * MaxN), e \in 0..(2 * MaxN), m \in Modes}
Legal(x) == /\ x.q \in Codes(x.n, x.lo) /\ (x.t = "range" => x.e \in Codes(x.n, x.lo))
            /\ (x.n = 0 => ~x.lo)
            \* a bounded axis without any coordinate (no ticks / labels / rows): only ticks-less range
            \* dimensions are defined by the statement ("no index"); label-less sets are the kind set0
            /\ (x.n = 0 => x.k \in {"range", "sampled", "set0"})

VARIABLES c, done
vars == <<c, done>>
Init == c \in {x \in IndexCases \cup RangeCases : Legal(x)} /\ done = FALSE
Eval == ~done /\ done' = TRUE /\ c' = c
Spec == Init /\ [][Eval]_vars

Res == IF c.t = "index" THEN IndexOf(c.k, c.n, c.lo, c.q, c.r)
       ELSE RangeOf(c.k, c.n, c.lo, c.q, c.e, c.m)

\* ---- meta properties of the definitions (checked on every case)
OnCoord(q) == q % 2 = 1
\* the coordinate of sample i converts back to i (i-1 for Less, i+1 for Greater)
RoundTrip ==
  (c.t = "index" /\ OnCoord(c.q)) =>
     LET i == (c.q - 1) \div 2  I == Idx(c.k, c.n, c.lo) IN
     CASE c.r \in {"Equal", "LessOrEqual", "GreaterOrEqual"} -> Res = Some(i)
       [] c.r = "Less"    -> Res = (IF i - 1 \in I THEN Some(i - 1) ELSE NoIdx)
       [] c.r = "Greater" -> Res = (IF i + 1 \in I THEN Some(i + 1) ELSE NoIdx)
\* between two coordinates: Equal has no index; LE = Less; GE = Greater
Between ==
  (c.t = "index" /\ ~OnCoord(c.q)) =>
     /\ IndexOf(c.k, c.n, c.lo, c.q, "Equal") = NoIdx
     /\ IndexOf(c.k, c.n, c.lo, c.q, "LessOrEqual") = IndexOf(c.k, c.n, c.lo, c.q, "Less")
     /\ IndexOf(c.k, c.n, c.lo, c.q, "GreaterOrEqual") = IndexOf(c.k, c.n, c.lo, c.q, "Greater")
\* the index is monotone in the position
Monotone ==
  (c.t = "index" /\ c.q + 1 \in Codes(c.n, c.lo)) =>
     LET a == Res  b == IndexOf(c.k, c.n, c.lo, c.q + 1, c.r) IN
     (a.some /\ b.some /\ c.r # "Equal") => a.idx <= b.idx
\* a valid pair delimits exactly the coordinates inside [s,e] resp. [s,e)
PairExact ==
  (c.t = "range") =>
     LET I == Idx(c.k, c.n, c.lo)
         S == {i \in I : Coord(i) >= c.q /\ (IF c.m = "Inclusive" THEN Coord(i) <= c.e ELSE Coord(i) < c.e)} IN
     IF S = {} THEN ~Res.some ELSE Res.some /\ Res.lo = SetMin(S) /\ Res.hi = SetMax(S)
PairValidity == (c.t = "range" /\ c.e < c.q) => ~Res.some

Emit == EmitJson([m |-> "axis", c |-> c, res |-> Res, inrange |-> InRange(c.n, c.q)])
=============================================================================
