---------------------------- MODULE NixAxisDefs ----------------------------
(***************************************************************************)
(* Position-to-index conversion along one dimension (C07; reused by the    *)
(* retrieval modules for C05, C06, C17).                                   *)
(*                                                                         *)
(* An axis is abstracted to its ORDER: n modelled coordinates with indices *)
(* 0..n-1 (relative to a window the harness places on a concrete axis),    *)
(* optionally one more coordinate below the window (lo) and - for kinds    *)
(* that continue upward without bound (sampled, set without labels) - one  *)
(* more above.  A position is a code q in 0..2n:                           *)
(*   q = 2i+1 : exactly on coordinate i                                    *)
(*   q = 2i   : strictly between coordinate i-1 and coordinate i           *)
(*   q = 0    : below coordinate 0,   q = 2n : above coordinate n-1        *)
(* The conversion rules are stated on the order only, as in the property.  *)
(***************************************************************************)
EXTENDS NixCommon

Kinds == {"sampled", "range", "setL", "set0", "frame"}
Rules == {"Less", "LessOrEqual", "Equal", "GreaterOrEqual", "Greater"}
Modes == {"Inclusive", "Exclusive"}

Coord(i) == 2 * i + 1
Unbounded(k) == k \in {"sampled", "set0"}

\* indices that exist on the abstract axis (window plus the optional neighbours)
Idx(k, n, lo) == (IF lo THEN -1 ELSE 0)..(IF Unbounded(k) THEN n ELSE n - 1)

\* result: [some |-> BOOLEAN, idx |-> Int]
NoIdx == [some |-> FALSE, idx |-> 0]
Some(i) == [some |-> TRUE, idx |-> i]

IndexOf(k, n, lo, q, r) ==
  LET I  == Idx(k, n, lo)
      LT == {i \in I : Coord(i) < q}    LE == {i \in I : Coord(i) <= q}
      EQ == {i \in I : Coord(i) = q}
      GE == {i \in I : Coord(i) >= q}   GT == {i \in I : Coord(i) > q}
  IN CASE r = "Less"           -> IF LT = {} THEN NoIdx ELSE Some(SetMax(LT))
       [] r = "LessOrEqual"    -> IF LE = {} THEN NoIdx ELSE Some(SetMax(LE))
       [] r = "Equal"          -> IF EQ = {} THEN NoIdx ELSE Some(SetMax(EQ))
       [] r = "GreaterOrEqual" -> IF GE = {} THEN NoIdx ELSE Some(SetMin(GE))
       [] r = "Greater"        -> IF GT = {} THEN NoIdx ELSE Some(SetMin(GT))

\* a start/end pair: (GE(start), LE(end)) inclusive, (GE(start), Less(end)) exclusive;
\* valid iff start <= end and the pair is ordered
RangeOf(k, n, lo, s, e, m) ==
  LET a == IndexOf(k, n, lo, s, "GreaterOrEqual")
      b == IndexOf(k, n, lo, e, IF m = "Inclusive" THEN "LessOrEqual" ELSE "Less")
  IN IF s <= e /\ a.some /\ b.some /\ a.idx <= b.idx
       THEN [some |-> TRUE, lo |-> a.idx, hi |-> b.idx]
       ELSE [some |-> FALSE, lo |-> 0, hi |-> 0]

\* RangeDimension::positionInRange
InRange(n, q) == IF n = 0 THEN "NoRange" ELSE IF q < Coord(0) THEN "Less"
                 ELSE IF q > Coord(n - 1) THEN "Greater" ELSE "InRange"

=============================================================================
