SPECIFICATION Spec
CONSTANTS
  Rank = 2
  MaxExt = 3
  MaxSteps = 2
  Acts = {"SetAll", "View"}
INVARIANT TypeOK
PROPERTIES SlabFrame ViewFrame GrowReadsZero AppendKeeps RawUnaffected RejectFrame
VIEW View
ACTION_CONSTRAINT Emit
CHECK_DEADLOCK FALSE
