SPECIFICATION Spec
CONSTANTS
  Names = {"n1"}
  MaxCreates = 4
  Slots = {"blocks", "frames", "groups", "sources", "arrays"}
  LinkSlotsOn = {"esources", "garrays", "gframes"}
  OneSlotsOn = {}
  Acts = {"Create", "Delete", "Link", "Attr", "Flush", "Close", "Crash", "Open", "OpenOw"}
  MaxLife = 4
  MaxDims = 0
  MaxSteps = 8
  MaxGen = 0
  EmitActs = {"Open", "Close", "Crash"}
  EmitRes = "any"
  EmitWhen = "always"
INVARIANTS TypeOK NamesUniqueInv OrderInv NoDanglingInv EidsFresh SearchEqualsBruteForce BreadthFirst BackRefsEqualBruteForce
PROPERTIES DeleteFrame RejectFrame ReadOnlyFrame ReadOnlyRejects ReopenIdentity CloseSaves DurableAfterFlush FlushSaves
VIEW View
ACTION_CONSTRAINT Emit
CHECK_DEADLOCK FALSE
