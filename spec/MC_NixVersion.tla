---------------------------- MODULE MC_NixVersion ----------------------------
EXTENDS NixVersion
LibV == <<1, 2, 0>>
Cube == {<<x, y, z>> : x \in (LibV[1]-2)..(LibV[1]+2), y \in (LibV[2]-2)..(LibV[2]+2), z \in (LibV[3]-2)..(LibV[3]+2)}
Ext  == {<<x, y, z>> : x \in {0, 1, 2147483647}, y \in {0, 2, 2147483647}, z \in {0, 1, 2147483647}}
AllVersions == Cube \cup Ext
AllDefects == {"no_format", "bad_format", "no_version", "no_id", "plain_hdf5", "not_hdf5", "absent"}
ASSUME OrderLaws(AllVersions)
ASSUME Transitive(Cube)
ASSUME Transitive(Ext)
=============================================================================
