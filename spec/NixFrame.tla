------------------------------ MODULE NixFrame ------------------------------
(***************************************************************************)
(* One DataFrame (C15): a fixed column schema, a row count, one value per  *)
(* cell.  Writes through three paths (whole row, selected cells of a row,  *)
(* a stretch of one column), row-count changes, reopen.  A write at step k *)
(* stores Stamp(k, row, col); cells never written hold 0 (zero / empty     *)
(* string).  The harness reads every cell back through readRow, readCell   *)
(* (by index and by name), readCells and readColumn (resize on / off, with *)
(* offset) after the judged step.                                          *)
(***************************************************************************)
EXTENDS NixCommon
CONSTANTS Cols,        \* number of columns (the harness chooses the column types by seed)
          MaxRows, MaxSteps
VARIABLES rows, cell, steps, last, hist
vars == <<rows, cell, steps, last, hist>>

C == 1..Cols
\* every third write after the first call stores the DEFAULT value (code 0: zero / empty string / false) explicitly, over whatever
\* the cell holds
Stamp(k, r, c) == IF k >= 2 /\ (k + r + c) % 3 = 0 THEN 0 ELSE 10 * k + ((r + 3 * c) % 10)
Call(a, v, res) == [a |-> a, v |-> v, res |-> res]
NoArg == [r |-> 0, cols |-> <<>>, c |-> 0, off |-> 0, cnt |-> 0, n |-> 0]
Step(x) == last' = x /\ hist' = Append(hist, x) /\ steps' = steps + 1
Room == steps < MaxSteps
Reject(a, v) == UNCHANGED <<rows, cell>> /\ Step(Call(a, v, "reject"))

\* rows(n): surviving rows keep their cells, new rows are empty
SetRows(n) ==
  /\ Room /\ n # rows
  /\ rows' = n /\ cell' = [r \in 0..(n - 1), c \in C |-> IF r < rows THEN cell[r, c] ELSE 0]
  /\ Step(Call("SetRows", [NoArg EXCEPT !.n = n], "ok"))

WriteRow(r) ==
  LET v == [NoArg EXCEPT !.r = r] IN
  /\ Room
  /\ IF r >= rows THEN Reject("WriteRow", v)
     ELSE /\ cell' = [x \in 0..(rows - 1), c \in C |-> IF x = r THEN Stamp(steps + 1, r, c) ELSE cell[x, c]]
          /\ UNCHANGED rows /\ Step(Call("WriteRow", v, "ok"))

\* cs: ascending sequence of distinct columns
WriteCells(r, cs) ==
  LET v == [NoArg EXCEPT !.r = r, !.cols = cs] IN
  /\ Room /\ Len(cs) >= 1
  /\ IF r >= rows THEN Reject("WriteCells", v)
     ELSE /\ cell' = [x \in 0..(rows - 1), c \in C |-> IF x = r /\ Contains(cs, c) THEN Stamp(steps + 1, r, c) ELSE cell[x, c]]
          /\ UNCHANGED rows /\ Step(Call("WriteCells", v, "ok"))

WriteColumn(c, off, cnt) ==
  LET v == [NoArg EXCEPT !.c = c, !.off = off, !.cnt = cnt] IN
  /\ Room /\ cnt >= 1
  /\ IF off + cnt > rows THEN Reject("WriteColumn", v)
     ELSE /\ cell' = [x \in 0..(rows - 1), y \in C |-> IF y = c /\ off <= x /\ x < off + cnt THEN Stamp(steps + 1, x, c) ELSE cell[x, y]]
          /\ UNCHANGED rows /\ Step(Call("WriteColumn", v, "ok"))

Reopen == /\ Room /\ UNCHANGED <<rows, cell>> /\ Step(Call("Reopen", NoArg, "ok"))

Init == rows = 0 /\ cell = [r \in {}, c \in C |-> 0] /\ steps = 0 /\ last = Call("Init", NoArg, "ok") /\ hist = <<>>
ColSeqs == {<<c>> : c \in C} \cup {<<a, b>> : a \in C, b \in C} \cup {[i \in 1..Cols |-> i]}
Next == \/ \E n \in 0..MaxRows : SetRows(n)
        \/ \E r \in 0..MaxRows : WriteRow(r)
        \/ \E r \in 0..MaxRows, cs \in {q \in ColSeqs : \A i \in 1..(Len(q) - 1) : q[i] < q[i + 1]} : WriteCells(r, cs)
        \/ \E c \in C, off \in 0..MaxRows, cnt \in 1..MaxRows : off + cnt <= MaxRows + 1 /\ WriteColumn(c, off, cnt)
        \/ Reopen
Spec == Init /\ [][Next]_vars

\* a write touches exactly the cells it names; everything else keeps its value (last write wins per cell)
WriteFrame == [][(last'.res = "ok" /\ last'.a \in {"WriteRow", "WriteCells", "WriteColumn"}) =>
                  \A r \in 0..(rows - 1), c \in C :
                     LET hit == CASE last'.a = "WriteRow" -> r = last'.v.r
                                  [] last'.a = "WriteCells" -> r = last'.v.r /\ Contains(last'.v.cols, c)
                                  [] last'.a = "WriteColumn" -> c = last'.v.c /\ last'.v.off <= r /\ r < last'.v.off + last'.v.cnt
                     IN cell'[r, c] = (IF hit THEN Stamp(steps + 1, r, c) ELSE cell[r, c])]_vars
ResizeKeeps == [][last'.a = "SetRows" => \A r \in 0..(rows' - 1), c \in C : cell'[r, c] = (IF r < rows THEN cell[r, c] ELSE 0)]_vars
RejectFrame == [][last'.res = "reject" => UNCHANGED <<rows, cell>>]_vars

ObsOf(n, ce) == [rows |-> n, cells |-> [r \in 1..n |-> [c \in C |-> ce[r - 1, c]]]]
View == <<rows, cell, steps>>
Emit == EmitJson([m |-> "frame", pre |-> hist, step |-> last', post |-> ObsOf(rows', cell')])
=============================================================================
