SPECIFICATION Spec
CONSTANTS
  Names = {"n1", "n2"}
  MaxCreates = 5
  Slots = {"blocks", "arrays", "mtags", "tags", "features"}
  LinkSlotsOn = {}
  OneSlotsOn = {}
  Acts = {"Create", "CreateBad"}
  MaxLife = 0
  MaxDims = 0
  MaxSteps = 6
  MaxGen = 0
  EmitActs = {"CreateBad", "Create"}
  EmitRes = "reject"
  EmitWhen = "always"
INVARIANTS TypeOK NamesUniqueInv OrderInv NoDanglingInv EidsFresh SearchEqualsBruteForce BreadthFirst BackRefsEqualBruteForce
PROPERTIES DeleteFrame RejectFrame ReadOnlyFrame ReadOnlyRejects ReopenIdentity CloseSaves DurableAfterFlush FlushSaves
VIEW View
ACTION_CONSTRAINT Emit
CHECK_DEADLOCK FALSE
