SPECIFICATION Spec
CONSTANT MaxBreaches = 2
INVARIANTS Sound SoftNeverError Complete
ACTION_CONSTRAINT Emit
CHECK_DEADLOCK FALSE
