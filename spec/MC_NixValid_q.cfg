SPECIFICATION Spec
CONSTANT MaxBreaches = 3
INVARIANTS Sound SoftNeverError Complete
ACTION_CONSTRAINT Emit
CHECK_DEADLOCK FALSE
