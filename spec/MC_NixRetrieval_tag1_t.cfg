SPECIFICATION SpecTag1
CONSTANTS
  MaxN = 4
  Cases = {}
INVARIANTS ExactOneDim PointIsGE UnspecifiedIsFull InsideData ListEqualsSingles IndexBeyondIsError
ACTION_CONSTRAINT Emit
CHECK_DEADLOCK FALSE
