SPECIFICATION Spec
CONSTANTS
  Rank = 1
  MaxExt = 3
  MaxSteps = 16
  Acts = {"SetAll", "View"}
INVARIANT TypeOK
PROPERTIES SlabFrame ViewFrame GrowReadsZero AppendKeeps RawUnaffected RejectFrame
VIEW View
ACTION_CONSTRAINT Emit
CHECK_DEADLOCK FALSE
