SPECIFICATION Spec
CONSTANTS
  Names = {"n1", "n2"}
  MaxCreates = 9
  Slots = {"blocks", "sections", "arrays", "frames", "tags", "mtags", "groups", "sources", "props", "features"}
  LinkSlotsOn = {"refs", "esources", "garrays", "gframes", "gtags", "gmtags"}
  OneSlotsOn = {"metadata", "positions", "extents", "data", "link"}
  Acts = {"Create", "CreateBad", "Delete", "DeleteAbsent", "Link", "Links", "One", "Foreign", "Attr", "Type", "Def", "Dims", "Flush", "Close", "Open"}
  MaxLife = 3
  MaxDims = 2
  MaxSteps = 0
  MaxGen = 0
  EmitActs = {"Create", "CreateBad", "Delete", "DeleteAbsent", "AddLink", "RemoveLink", "SetLinks", "SetOne", "SetAttr", "SetType", "SetDef", "AppendDim", "DeleteDims", "Flush", "Close", "Crash", "Open"}
  EmitRes = "any"
  EmitWhen = "always"
INVARIANTS TypeOK NamesUniqueInv OrderInv NoDanglingInv EidsFresh SearchEqualsBruteForce BreadthFirst BackRefsEqualBruteForce
PROPERTIES DeleteFrame RejectFrame ReadOnlyFrame ReadOnlyRejects ReopenIdentity CloseSaves DurableAfterFlush FlushSaves
VIEW View
ACTION_CONSTRAINT Emit
CHECK_DEADLOCK FALSE
