SPECIFICATION Spec
CONSTANTS
  Names = {"n1"}
  MaxCreates = 6
  Slots = {"blocks", "sections", "sources", "arrays", "tags", "mtags"}
  LinkSlotsOn = {"esources"}
  OneSlotsOn = {"metadata"}
  Acts = {"Create", "Link", "One", "Delete", "Query"}
  MaxLife = 0
  MaxDims = 0
  MaxSteps = 8
  MaxGen = 0
  EmitActs = {"QueryAll"}
  EmitRes = "any"
  EmitWhen = "always"
INVARIANTS TypeOK NamesUniqueInv OrderInv NoDanglingInv EidsFresh SearchEqualsBruteForce BreadthFirst BackRefsEqualBruteForce
PROPERTIES DeleteFrame RejectFrame ReadOnlyFrame ReadOnlyRejects ReopenIdentity CloseSaves DurableAfterFlush FlushSaves
VIEW View
ACTION_CONSTRAINT Emit
CHECK_DEADLOCK FALSE
