SPECIFICATION SpecReject
CONSTANT Tier = "x"
ACTION_CONSTRAINT Emit
CHECK_DEADLOCK FALSE
