------------------------------ MODULE NixMisuse ------------------------------
(***************************************************************************)
(* Out-of-contract calls (C16).  Each case names a misuse class, the kind   *)
(* of entity it is applied to and a variant; the predicted outcome is       *)
(* "throws" (a C++ exception) or "any" (may also succeed).  What C16        *)
(* forbids is a third outcome: undefined behaviour (crash, sanitizer        *)
(* report).  TLC only enumerates the table; the verdict comes from running  *)
(* every case - and all lines of the other modules - under ASan + UBSan.    *)
(***************************************************************************)
EXTENDS NixCommon
Kinds == {"block", "section", "prop", "source", "array", "frame", "tag", "mtag", "group", "feature"}
Classes == [
  uninit      |-> [kinds |-> Kinds \cup {"file", "dim", "view"}, variants |-> {"getter", "mutator", "asarg"}, outcome |-> "throws"],
  stale       |-> [kinds |-> Kinds \cup {"dim"}, variants |-> {"getter", "mutator", "asarg"}, outcome |-> "any"],
  closed      |-> [kinds |-> Kinds \cup {"file", "dim"}, variants |-> {"getter", "mutator"}, outcome |-> "throws"],
  index_past  |-> [kinds |-> Kinds \cup {"file", "dim"}, variants |-> {"count", "count+1", "max"}, outcome |-> "throws"],
  wrong_rank  |-> [kinds |-> {"array", "view"}, variants |-> {"lower-read", "higher-read", "lower-write", "higher-write", "empty-read"}, outcome |-> "any"],
  io_shape    |-> [kinds |-> {"array", "view"}, variants |-> {"empty-count", "empty-offset", "both-empty", "ones", "whole"}, outcome |-> "any"],   \* count / offset vectors left empty or minimal, with and without calibration, every element type, exact-size buffers
  outside     |-> [kinds |-> {"array", "view", "frame"}, variants |-> {"offset", "count", "huge", "zero-count"}, outcome |-> "any"],
  empty       |-> [kinds |-> {"tag", "mtag", "array", "frame", "section", "prop"}, variants |-> {"retrieve", "feature", "read", "index0"}, outcome |-> "any"],
  badarg      |-> [kinds |-> {"array", "tag", "mtag", "frame", "prop"}, variants |-> {"nan", "inf", "negative", "hugevec", "emptyvec"}, outcome |-> "any"] ]
ClassNames == DOMAIN Classes
VARIABLES c, done
vars == <<c, done>>
Init == /\ \E cl \in ClassNames : \E k \in Classes[cl].kinds, v \in Classes[cl].variants : c = [cl |-> cl, kind |-> k, variant |-> v, outcome |-> Classes[cl].outcome]
        /\ done = FALSE
Eval == ~done /\ done' = TRUE /\ c' = c
Spec == Init /\ [][Eval]_vars
Emit == EmitJson([m |-> "misuse", c |-> c])
=============================================================================
