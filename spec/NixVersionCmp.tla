---------------------------- MODULE NixVersionCmp ----------------------------
(* Function-like part of NixVersion: the comparison operators and canRead / canWrite on every ordered *)
(* pair of version triples.  Cases are initial states; one Eval step emits case + expected results.   *)
EXTENDS NixCommon, NixVersionOrder
CONSTANT Versions
VARIABLES c, done
cvars == <<c, done>>
CInit == c \in (Versions \X Versions) /\ done = FALSE
Eval == ~done /\ done' = TRUE /\ c' = c
CSpec == CInit /\ [][Eval]_cvars
CEmit == EmitJson([m |-> "version.cmp",
                   a |-> c[1], b |-> c[2],
                   lt |-> VLess(c[1], c[2]), eq |-> VEq(c[1], c[2]), le |-> VLe(c[1], c[2]),
                   gt |-> VLess(c[2], c[1]), ge |-> VLe(c[2], c[1]), ne |-> ~VEq(c[1], c[2]),
                   canRead |-> CanRead(c[1], c[2]), canWrite |-> CanWrite(c[1], c[2])])
=============================================================================
