SPECIFICATION Spec
CONSTANTS
  Lib <- LibV
  Versions <- AllVersions
  Defects <- AllDefects
  MaxBlocks = 2
  MaxOpens = 2
INVARIANT TypeOK
PROPERTIES GateRead GateWrite GateComplete ForceBypasses ReadOnlyFrame ROOpenFrame RWPreserves OverwriteEmpties RefuseWithoutHeader RefuseAbsentRO RejectFrame
VIEW View
ACTION_CONSTRAINT Emit
CHECK_DEADLOCK FALSE
