---- MODULE NixVersionLaws ----
(* Unbounded form of the format-version laws (C10), for Apalache: the SAME operators as the TLC model          *)
(* (NixVersionOrder: VLess, VEq, VLe, CanRead, CanWrite, OrderLaws, Transitive), with components ranging over  *)
(* all integers; `apalache-mc check --length=0 --inv=Laws` proves the laws for every triple, not only the cube. *)
EXTENDS Integers, NixVersionOrder
VARIABLES
  \* @type: <<Int, Int, Int>>;
  a,
  \* @type: <<Int, Int, Int>>;
  b,
  \* @type: <<Int, Int, Int>>;
  c

Init == /\ \E x \in Int, y \in Int, z \in Int : a = <<x, y, z>>
        /\ \E x \in Int, y \in Int, z \in Int : b = <<x, y, z>>
        /\ \E x \in Int, y \in Int, z \in Int : c = <<x, y, z>>
Next == UNCHANGED <<a, b, c>>

Laws == OrderLaws({a, b, c}) /\ Transitive({a, b, c})
====
