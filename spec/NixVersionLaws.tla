---- MODULE NixVersionLaws ----
(* Unbounded form of the format-version laws of NixVersionOrder (C10), for Apalache: components range over all *)
(* integers; `apalache-mc check --length=0 --inv=Laws` proves the laws for every triple, not only the TLC cube. *)
EXTENDS Integers
VARIABLES
  \* @type: Int;
  ax,
  \* @type: Int;
  ay,
  \* @type: Int;
  az,
  \* @type: Int;
  bx,
  \* @type: Int;
  by,
  \* @type: Int;
  bz,
  \* @type: Int;
  cx,
  \* @type: Int;
  cy,
  \* @type: Int;
  cz

Less(x1, y1, z1, x2, y2, z2) == x1 < x2 \/ (x1 = x2 /\ y1 < y2) \/ (x1 = x2 /\ y1 = y2 /\ z1 < z2)
Eq(x1, y1, z1, x2, y2, z2) == x1 = x2 /\ y1 = y2 /\ z1 = z2
CanRead(x1, y1, z1, x2, y2, z2) == x1 = x2 /\ y1 >= y2
CanWrite(x1, y1, z1, x2, y2, z2) == Eq(x1, y1, z1, x2, y2, z2)

Init == ax \in Int /\ ay \in Int /\ az \in Int /\ bx \in Int /\ by \in Int /\ bz \in Int /\ cx \in Int /\ cy \in Int /\ cz \in Int
Next == UNCHANGED <<ax, ay, az, bx, by, bz, cx, cy, cz>>

Laws ==
  /\ ~Less(ax, ay, az, ax, ay, az)
  /\ (Less(ax, ay, az, bx, by, bz) \/ Less(bx, by, bz, ax, ay, az) \/ Eq(ax, ay, az, bx, by, bz))
  /\ ~(Less(ax, ay, az, bx, by, bz) /\ Less(bx, by, bz, ax, ay, az))
  /\ ((Less(ax, ay, az, bx, by, bz) /\ Less(bx, by, bz, cx, cy, cz)) => Less(ax, ay, az, cx, cy, cz))
  /\ (CanWrite(ax, ay, az, bx, by, bz) => CanRead(ax, ay, az, bx, by, bz))
  /\ (Eq(ax, ay, az, bx, by, bz) => ~Less(ax, ay, az, bx, by, bz))
====
