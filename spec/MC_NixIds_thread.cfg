SPECIFICATION Spec
CONSTANTS
  Procs = {"p1", "p2", "p3"}
  MaxClock = 0
  MaxIds = 4
  MaxStarts = 4
  SeedSource = "per_thread"
  Acts = {"Thread"}
INVARIANT IdsUnique
CHECK_DEADLOCK FALSE
