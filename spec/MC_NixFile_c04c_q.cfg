SPECIFICATION Spec
CONSTANTS
  Names = {"n1"}
  MaxCreates = 3
  Slots = {"blocks", "arrays", "frames", "groups", "tags"}
  LinkSlotsOn = {"gframes", "garrays", "gtags", "refs"}
  OneSlotsOn = {}
  Acts = {"Create", "Delete", "Link", "One", "Dims"}
  MaxLife = 0
  MaxDims = 2
  MaxSteps = 0
  MaxGen = 1
  EmitActs = {"Delete"}
  EmitRes = "any"
  EmitWhen = "always"
INVARIANTS TypeOK NamesUniqueInv OrderInv NoDanglingInv EidsFresh SearchEqualsBruteForce BreadthFirst BackRefsEqualBruteForce
PROPERTIES DeleteFrame RejectFrame ReadOnlyFrame ReadOnlyRejects ReopenIdentity CloseSaves DurableAfterFlush FlushSaves
VIEW View
ACTION_CONSTRAINT Emit
CHECK_DEADLOCK FALSE
