SPECIFICATION Spec
CONSTANTS
  Names = {"n1"}
  MaxCreates = 4
  Slots = {"blocks", "frames", "groups"}
  LinkSlotsOn = {"gframes"}
  OneSlotsOn = {}
  Acts = {"Create", "Delete", "Link"}
  MaxLife = 0
  MaxDims = 0
  MaxSteps = 7
  MaxGen = 0
  EmitActs = {"Create", "Delete", "AddLink"}
  EmitRes = "any"
  EmitWhen = "always"
INVARIANTS TypeOK NamesUniqueInv OrderInv NoDanglingInv EidsFresh SearchEqualsBruteForce BreadthFirst BackRefsEqualBruteForce
PROPERTIES DeleteFrame RejectFrame ReadOnlyFrame ReadOnlyRejects ReopenIdentity CloseSaves DurableAfterFlush FlushSaves
VIEW View
ACTION_CONSTRAINT Emit
CHECK_DEADLOCK FALSE
