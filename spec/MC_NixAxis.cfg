SPECIFICATION Spec
CONSTANT MaxN = 4
INVARIANTS RoundTrip Between Monotone PairExact PairValidity
ACTION_CONSTRAINT Emit
CHECK_DEADLOCK FALSE
