---- MODULE NixIds_TTrace_1790884445 ----
EXTENDS Sequences, NixIds, TLCExt, Toolbox, Naturals, TLC

_expression ==
    LET NixIds_TEExpression == INSTANCE NixIds_TEExpression
    IN NixIds_TEExpression!expression
----

_trace ==
    LET NixIds_TETrace == INSTANCE NixIds_TETrace
    IN NixIds_TETrace!trace
----

_inv ==
    ~(
        TLCGet("level") = Len(_TETrace)
        /\
        ctr = (<<1, 1, 0, 0, 0>>)
        /\
        running = ({"p1", "p2"})
        /\
        ngen = (2)
        /\
        gen = ([p1 |-> 1, p2 |-> 2, p3 |-> 0])
        /\
        seed = (<<0, 0, 0, 0, 0>>)
        /\
        clock = (0)
        /\
        fresh = (1002)
        /\
        issued = ({<<0, 0>>})
        /\
        dup = (TRUE)
    )
----

_init ==
    /\ fresh = _TETrace[1].fresh
    /\ ngen = _TETrace[1].ngen
    /\ ctr = _TETrace[1].ctr
    /\ running = _TETrace[1].running
    /\ clock = _TETrace[1].clock
    /\ issued = _TETrace[1].issued
    /\ dup = _TETrace[1].dup
    /\ gen = _TETrace[1].gen
    /\ seed = _TETrace[1].seed
----

_next ==
    /\ \E i,j \in DOMAIN _TETrace:
        /\ \/ /\ j = i + 1
              /\ i = TLCGet("level")
        /\ fresh  = _TETrace[i].fresh
        /\ fresh' = _TETrace[j].fresh
        /\ ngen  = _TETrace[i].ngen
        /\ ngen' = _TETrace[j].ngen
        /\ ctr  = _TETrace[i].ctr
        /\ ctr' = _TETrace[j].ctr
        /\ running  = _TETrace[i].running
        /\ running' = _TETrace[j].running
        /\ clock  = _TETrace[i].clock
        /\ clock' = _TETrace[j].clock
        /\ issued  = _TETrace[i].issued
        /\ issued' = _TETrace[j].issued
        /\ dup  = _TETrace[i].dup
        /\ dup' = _TETrace[j].dup
        /\ gen  = _TETrace[i].gen
        /\ gen' = _TETrace[j].gen
        /\ seed  = _TETrace[i].seed
        /\ seed' = _TETrace[j].seed

\* Uncomment the ASSUME below to write the states of the error trace
\* to the given file in Json format. Note that you can pass any tuple
\* to `JsonSerialize`. For example, a sub-sequence of _TETrace.
    \* ASSUME
    \*     LET J == INSTANCE Json
    \*         IN J!JsonSerialize("NixIds_TTrace_1790884445.json", _TETrace)

=============================================================================

 Note that you can extract this module `NixIds_TEExpression`
  to a dedicated file to reuse `expression` (the module in the 
  dedicated `NixIds_TEExpression.tla` file takes precedence 
  over the module `NixIds_TEExpression` below).

---- MODULE NixIds_TEExpression ----
EXTENDS Sequences, NixIds, TLCExt, Toolbox, Naturals, TLC

expression == 
    [
        \* To hide variables of the `NixIds` spec from the error trace,
        \* remove the variables below.  The trace will be written in the order
        \* of the fields of this record.
        fresh |-> fresh
        ,ngen |-> ngen
        ,ctr |-> ctr
        ,running |-> running
        ,clock |-> clock
        ,issued |-> issued
        ,dup |-> dup
        ,gen |-> gen
        ,seed |-> seed
        
        \* Put additional constant-, state-, and action-level expressions here:
        \* ,_stateNumber |-> _TEPosition
        \* ,_freshUnchanged |-> fresh = fresh'
        
        \* Format the `fresh` variable as Json value.
        \* ,_freshJson |->
        \*     LET J == INSTANCE Json
        \*     IN J!ToJson(fresh)
        
        \* Lastly, you may build expressions over arbitrary sets of states by
        \* leveraging the _TETrace operator.  For example, this is how to
        \* count the number of times a spec variable changed up to the current
        \* state in the trace.
        \* ,_freshModCount |->
        \*     LET F[s \in DOMAIN _TETrace] ==
        \*         IF s = 1 THEN 0
        \*         ELSE IF _TETrace[s].fresh # _TETrace[s-1].fresh
        \*             THEN 1 + F[s-1] ELSE F[s-1]
        \*     IN F[_TEPosition - 1]
    ]

=============================================================================



Parsing and semantic processing can take forever if the trace below is long.
 In this case, it is advised to uncomment the module below to deserialize the
 trace from a generated binary file.

\*
\*---- MODULE NixIds_TETrace ----
\*EXTENDS IOUtils, NixIds, TLC
\*
\*trace == IODeserialize("NixIds_TTrace_1790884445.bin", TRUE)
\*
\*=============================================================================
\*

---- MODULE NixIds_TETrace ----
EXTENDS NixIds, TLC

trace == 
    <<
    ([ctr |-> <<0, 0, 0, 0, 0>>,running |-> {},ngen |-> 0,gen |-> [p1 |-> 0, p2 |-> 0, p3 |-> 0],seed |-> <<0, 0, 0, 0, 0>>,clock |-> 0,fresh |-> 1000,issued |-> {},dup |-> FALSE]),
    ([ctr |-> <<0, 0, 0, 0, 0>>,running |-> {"p1"},ngen |-> 1,gen |-> [p1 |-> 1, p2 |-> 0, p3 |-> 0],seed |-> <<0, 0, 0, 0, 0>>,clock |-> 0,fresh |-> 1001,issued |-> {},dup |-> FALSE]),
    ([ctr |-> <<0, 0, 0, 0, 0>>,running |-> {"p1", "p2"},ngen |-> 2,gen |-> [p1 |-> 1, p2 |-> 2, p3 |-> 0],seed |-> <<0, 0, 0, 0, 0>>,clock |-> 0,fresh |-> 1002,issued |-> {},dup |-> FALSE]),
    ([ctr |-> <<1, 0, 0, 0, 0>>,running |-> {"p1", "p2"},ngen |-> 2,gen |-> [p1 |-> 1, p2 |-> 2, p3 |-> 0],seed |-> <<0, 0, 0, 0, 0>>,clock |-> 0,fresh |-> 1002,issued |-> {<<0, 0>>},dup |-> FALSE]),
    ([ctr |-> <<1, 1, 0, 0, 0>>,running |-> {"p1", "p2"},ngen |-> 2,gen |-> [p1 |-> 1, p2 |-> 2, p3 |-> 0],seed |-> <<0, 0, 0, 0, 0>>,clock |-> 0,fresh |-> 1002,issued |-> {<<0, 0>>},dup |-> TRUE])
    >>
----


=============================================================================

---- CONFIG NixIds_TTrace_1790884445 ----
CONSTANTS
    Procs = { "p1" , "p2" , "p3" }
    MaxClock = 2
    MaxIds = 4
    MaxStarts = 4
    SeedSource = "time"
    Acts = { }

INVARIANT
    _inv

CHECK_DEADLOCK
    \* CHECK_DEADLOCK off because of PROPERTY or INVARIANT above.
    FALSE

INIT
    _init

NEXT
    _next

CONSTANT
    _TETrace <- _trace

ALIAS
    _expression
=============================================================================
\* Generated on Thu Oct 01 19:54:07 UTC 2026