SPECIFICATION Spec
CONSTANTS
  Cols = 2
  MaxRows = 3
  MaxSteps = 4
PROPERTIES WriteFrame ResizeKeeps RejectFrame
VIEW View
ACTION_CONSTRAINT Emit
CHECK_DEADLOCK FALSE
