SPECIFICATION Spec
CONSTANTS
  Rank = 2
  MaxExt = 3
  MaxSteps = 16
  Acts = {"Write", "SetAll", "Append", "Extent", "Cal", "Reopen"}
INVARIANT TypeOK
PROPERTIES SlabFrame ViewFrame GrowReadsZero AppendKeeps RawUnaffected RejectFrame
VIEW View
ACTION_CONSTRAINT Emit
CHECK_DEADLOCK FALSE
