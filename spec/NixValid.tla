------------------------------ MODULE NixValid ------------------------------
(***************************************************************************)
(* The validator (C19) over an abstract file: a fixed rule-conforming base *)
(* file (arrays with every descriptor kind, tag, multi-tag, features,      *)
(* section with property) and a set of rule breaches injected at specific  *)
(* entities.  Hard-rule breaches must yield at least one error for the     *)
(* breached entity; soft-rule breaches never yield an error; no breach     *)
(* yields no error anywhere.                                               *)
(*                                                                         *)
(* The file is edited IN PLACE: breaches are injected and repaired one by   *)
(* one, the file may be closed and reopened, and the validator may run at   *)
(* any point, any number of times.  Its verdict is a function of the        *)
(* breaches present at that moment and of nothing else (HistoryFree): not   *)
(* of earlier verdicts, of what an earlier run looked at, nor of the order  *)
(* in which the file got into its state.                                    *)
(*                                                                         *)
(* Entities of the base file:                                              *)
(*   A1  array, rank 2, dims D11 (sampled, unit ms) and D12 (range, unit mV)*)
(*   A2  array, rank 1, dim D21 (set with labels)                          *)
(*   A3  array, rank 1, dim D31 (data-frame)                               *)
(*   A4  array, rank 2, set dimension without labels followed by a labelled one *)
(*   A5  array, rank 2, two range dimensions                                *)
(*   A6  array, rank 2, two sampled dimensions; referenced by tag T2 (units for both dimensions) *)
(*   A7  array, rank 1, numeric, with an alias range dimension D71 (its ticks are the array's data) *)
(*   T   tag referencing A1 (units for both dimensions), feature FT        *)
(*   M   multi-tag with positions P, referencing A2, feature FM            *)
(*   S   section with property PR                                          *)
(***************************************************************************)
EXTENDS NixCommon

Entities == {"A1", "A2", "A3", "A4", "A5", "A6", "A7", "D71", "T2", "D11", "D12", "D21", "D31", "T", "M", "FT", "FM", "S", "PR", "B"}

\* breach -> [hard?, entity that must carry the error]
Rules == [
  ndims_extra   |-> [hard |-> TRUE,  at |-> "A1"],   \* more descriptors than data dimensions
  ndims_extra2  |-> [hard |-> TRUE,  at |-> "A2"],
  nticks        |-> [hard |-> TRUE,  at |-> "A1"],   \* number of ticks differs from the data length
  nlabels       |-> [hard |-> TRUE,  at |-> "A2"],   \* number of labels differs from the data length
  nrows         |-> [hard |-> TRUE,  at |-> "A3"],
  nlabels_2nd   |-> [hard |-> TRUE,  at |-> "A4"],   \* label count wrong in the SECOND set dimension (the first has no labels)
  nticks_2nd    |-> [hard |-> TRUE,  at |-> "A5"],   \* tick count wrong in the second range dimension (the first is fine)
  nticks_1st    |-> [hard |-> TRUE,  at |-> "A5"],   \* number of data-frame rows differs from the data length
  unsorted      |-> [hard |-> TRUE,  at |-> "D12"],  \* ticks not ascending
  interval0     |-> [hard |-> TRUE,  at |-> "D11"],  \* sampling interval not positive
  tagunit1      |-> [hard |-> TRUE,  at |-> "T"],    \* tag unit of dimension 1 not convertible (dimension 2 fine)
  tagunit2      |-> [hard |-> TRUE,  at |-> "T"],    \* tag unit of dimension 2 not convertible (dimension 1 fine)
  nopositions   |-> [hard |-> TRUE,  at |-> "M"],
  featnodata    |-> [hard |-> TRUE,  at |-> "FT"],
  featnodata2   |-> [hard |-> TRUE,  at |-> "FM"],
  unit_nonsi    |-> [hard |-> FALSE, at |-> "A1"],   \* array unit not SI
  unit_missing  |-> [hard |-> FALSE, at |-> "A2"],
  poly_noorigin |-> [hard |-> FALSE, at |-> "A1"],
  origin_nopoly |-> [hard |-> FALSE, at |-> "A2"],
  offset_nounit |-> [hard |-> FALSE, at |-> "D11"],
  prop_nounit   |-> [hard |-> FALSE, at |-> "PR"],
  dimunit1      |-> [hard |-> TRUE,  at |-> "T"],    \* unit of A1's first DIMENSION changed to one the tag's unit is not convertible to
  dimunit2      |-> [hard |-> TRUE,  at |-> "T"],
  ndims_missing |-> [hard |-> TRUE,  at |-> "A6"],   \* FEWER descriptors than data dimensions (one of two); the tag T2 still names units for both
  ndims_none    |-> [hard |-> TRUE,  at |-> "A6"],
  alias_unsorted |-> [hard |-> TRUE, at |-> "D71"],  \* the data of A7 - the ticks of its alias range dimension - not ascending (the data API accepts any values)
  dupticks      |-> [hard |-> FALSE, at |-> "D12"] ] \* two equal neighbouring ticks: ascending (not strictly), accepted by the API, conforming  \* no descriptor at all
Breaches == DOMAIN Rules

\* combinations that cannot be built together (they change the same attribute in incompatible ways)
Compatible(B) == /\ Cardinality(B \cap {"tagunit1", "tagunit2", "dimunit1", "dimunit2"}) <= 1   \* each is "only this one is wrong"
                 /\ ~({"interval0", "offset_nounit"} \subseteq B)  \* offset_nounit removes the unit the tag-unit check needs: keep apart from unit rules
                 /\ ~({"offset_nounit", "tagunit1"} \subseteq B)
                 /\ ~({"offset_nounit", "dimunit1"} \subseteq B)
                 /\ ~({"ndims_missing", "ndims_none"} \subseteq B)
                 /\ ~({"unsorted", "dupticks"} \subseteq B)

\* breaches that can be taken back in place (the others delete something that cannot be re-created under the same id)
Repairable == Breaches \ {"ndims_extra", "ndims_extra2", "nopositions", "featnodata", "featnodata2"}

ErrorAt(B) == {Rules[b].at : b \in {x \in B : Rules[x].hard}}
\* soft rules: a breach is reported as a warning for the entity (never as an error); "dupticks" is no breach at all
Conforming == {"dupticks"}
SoftRules == {b \in Breaches : ~Rules[b].hard} \ Conforming
WarnAt(B) == {Rules[b].at : b \in B \cap SoftRules}

CONSTANTS MaxBreaches,   \* breaches already present when the history starts (old function-like mode: any subset up to this size)
          MaxSteps, Acts
VARIABLES cur,      \* breaches present in the file
          vs,       \* the states (breach sets) at which the validator has already run: what a stateful validator could remember
          c0,       \* breaches already present when the history starts (never changes)
          steps, last, hist
vars == <<cur, vs, c0, steps, last, hist>>
NoErr == [e \in Entities |-> FALSE]
Call(a, b, B) == [a |-> a, b |-> b, errors |-> [e \in Entities |-> e \in ErrorAt(B)],
                  warns |-> [e \in Entities |-> e \in WarnAt(B)]]   \* entities that must carry at least one warning
Step(c) == last' = c /\ hist' = Append(hist, c) /\ steps' = steps + 1 /\ c0' = c0
Room == steps < MaxSteps

Inject(b) == /\ Room /\ b \notin cur /\ Compatible(cur \cup {b}) /\ cur' = cur \cup {b} /\ vs' = vs /\ Step(Call("Inject", b, {}))
Repair(b) == /\ Room /\ b \in cur /\ b \in Repairable /\ cur' = cur \ {b} /\ vs' = vs /\ Step(Call("Repair", b, {}))
Reopen    == /\ Room /\ UNCHANGED <<cur, vs>> /\ Step(Call("Reopen", "", {}))
Validate  == /\ Room /\ cur' = cur /\ vs' = vs \cup {cur} /\ Step(Call("Validate", "", cur))

Init == /\ cur \in {B \in SUBSET Breaches : Cardinality(B) <= MaxBreaches /\ Compatible(B)}
        /\ c0 = cur /\ vs = {} /\ steps = 0 /\ last = Call("Init", "", {}) /\ hist = <<>>
Next == \/ "Inject" \in Acts /\ \E b \in Breaches : Inject(b)
        \/ "Repair" \in Acts /\ \E b \in Breaches : Repair(b)
        \/ "Reopen" \in Acts /\ Reopen
        \/ Validate
Spec == Init /\ [][Next]_vars

Expected(B) == [e \in Entities |-> e \in ErrorAt(B)]
Sound == (cur = {}) => ErrorAt(cur) = {}
SoftNeverError == (\A b \in cur : ~Rules[b].hard) => ErrorAt(cur) = {}
Complete == \A b \in cur : Rules[b].hard => Rules[b].at \in ErrorAt(cur)
\* every soft-rule breach is reported, as a warning, and by itself never makes its entity carry an error
SoftWarns == \A b \in cur \cap SoftRules : Rules[b].at \in WarnAt(cur) /\ (Rules[b].at \in ErrorAt(cur) => \E h \in cur : Rules[h].hard /\ Rules[h].at = Rules[b].at)
\* the verdict of a run depends on the breaches present and on nothing else
HistoryFree == [][last'.a = "Validate" => (last'.errors = Expected(cur') /\ last'.warns = [e \in Entities |-> e \in WarnAt(cur')])]_vars
\* a repaired file validates like one that never had the breach; in particular the conforming file has no error again
RepairRestores == [][(last'.a = "Validate" /\ cur' = {}) => \A e \in Entities : ~last'.errors[e]]_vars

View == <<cur, vs, c0, steps>>
Emit == (last'.a = "Validate") =>
          EmitJson([m |-> "valid", init |-> [b \in Breaches |-> b \in c0], pre |-> hist, step |-> last'])
=============================================================================
