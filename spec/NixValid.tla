------------------------------ MODULE NixValid ------------------------------
(***************************************************************************)
(* The validator (C19) over an abstract file: a fixed rule-conforming base *)
(* file (arrays with every descriptor kind, tag, multi-tag, features,      *)
(* section with property) and a set of rule breaches injected at specific  *)
(* entities.  Hard-rule breaches must yield at least one error for the     *)
(* breached entity; soft-rule breaches never yield an error; no breach     *)
(* yields no error anywhere.                                               *)
(*                                                                         *)
(* Entities of the base file:                                              *)
(*   A1  array, rank 2, dims D11 (sampled, unit ms) and D12 (range, unit mV)*)
(*   A2  array, rank 1, dim D21 (set with labels)                          *)
(*   A3  array, rank 1, dim D31 (data-frame)                               *)
(*   A4  array, rank 2, set dimension without labels followed by a labelled one *)
(*   A5  array, rank 2, two range dimensions                                *)
(*   T   tag referencing A1 (units for both dimensions), feature FT        *)
(*   M   multi-tag with positions P, referencing A2, feature FM            *)
(*   S   section with property PR                                          *)
(***************************************************************************)
EXTENDS NixCommon

Entities == {"A1", "A2", "A3", "A4", "A5", "D11", "D12", "D21", "D31", "T", "M", "FT", "FM", "S", "PR", "B"}

\* breach -> [hard?, entity that must carry the error]
Rules == [
  ndims_extra   |-> [hard |-> TRUE,  at |-> "A1"],   \* more descriptors than data dimensions
  ndims_extra2  |-> [hard |-> TRUE,  at |-> "A2"],
  nticks        |-> [hard |-> TRUE,  at |-> "A1"],   \* number of ticks differs from the data length
  nlabels       |-> [hard |-> TRUE,  at |-> "A2"],   \* number of labels differs from the data length
  nrows         |-> [hard |-> TRUE,  at |-> "A3"],
  nlabels_2nd   |-> [hard |-> TRUE,  at |-> "A4"],   \* label count wrong in the SECOND set dimension (the first has no labels)
  nticks_2nd    |-> [hard |-> TRUE,  at |-> "A5"],   \* tick count wrong in the second range dimension (the first is fine)
  nticks_1st    |-> [hard |-> TRUE,  at |-> "A5"],   \* number of data-frame rows differs from the data length
  unsorted      |-> [hard |-> TRUE,  at |-> "D12"],  \* ticks not ascending
  interval0     |-> [hard |-> TRUE,  at |-> "D11"],  \* sampling interval not positive
  tagunit1      |-> [hard |-> TRUE,  at |-> "T"],    \* tag unit of dimension 1 not convertible (dimension 2 fine)
  tagunit2      |-> [hard |-> TRUE,  at |-> "T"],    \* tag unit of dimension 2 not convertible (dimension 1 fine)
  nopositions   |-> [hard |-> TRUE,  at |-> "M"],
  featnodata    |-> [hard |-> TRUE,  at |-> "FT"],
  featnodata2   |-> [hard |-> TRUE,  at |-> "FM"],
  unit_nonsi    |-> [hard |-> FALSE, at |-> "A1"],   \* array unit not SI
  unit_missing  |-> [hard |-> FALSE, at |-> "A2"],
  poly_noorigin |-> [hard |-> FALSE, at |-> "A1"],
  origin_nopoly |-> [hard |-> FALSE, at |-> "A2"],
  offset_nounit |-> [hard |-> FALSE, at |-> "D11"],
  prop_nounit   |-> [hard |-> FALSE, at |-> "PR"] ]
Breaches == DOMAIN Rules

\* combinations that cannot be built together (they change the same attribute in incompatible ways)
Compatible(B) == /\ ~({"tagunit1", "tagunit2"} \subseteq B)       \* each is "only this dimension is wrong"
                 /\ ~({"interval0", "offset_nounit"} \subseteq B)  \* offset_nounit removes the unit the tag-unit check needs: keep apart from unit rules
                 /\ ~({"offset_nounit", "tagunit1"} \subseteq B)
                 /\ ~({"poly_noorigin", "origin_nopoly"} \subseteq {})

ErrorAt(B) == {Rules[b].at : b \in {x \in B : Rules[x].hard}}

CONSTANTS MaxBreaches
VARIABLES c, done
vars == <<c, done>>
Init == /\ c \in {B \in SUBSET Breaches : Cardinality(B) <= MaxBreaches /\ Compatible(B)} /\ done = FALSE
Eval == ~done /\ done' = TRUE /\ c' = c
Spec == Init /\ [][Eval]_vars

Sound == (c = {}) => ErrorAt(c) = {}
SoftNeverError == (\A b \in c : ~Rules[b].hard) => ErrorAt(c) = {}
Complete == \A b \in c : Rules[b].hard => Rules[b].at \in ErrorAt(c)

Emit == EmitJson([m |-> "valid", bs |-> [b \in Breaches |-> b \in c], errors |-> [e \in Entities |-> e \in ErrorAt(c)]])
=============================================================================
