SPECIFICATION Spec
CONSTANTS
  Procs = {"p1", "p2", "p3"}
  MaxClock = 2
  MaxIds = 4
  MaxStarts = 4
  SeedSource = "time"
  Acts = {}
INVARIANT IdsUnique
CHECK_DEADLOCK FALSE
