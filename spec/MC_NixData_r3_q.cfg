SPECIFICATION Spec
CONSTANTS
  Rank = 3
  MaxExt = 2
  MaxSteps = 2
  Acts = {"Write", "SetAll", "Append", "Extent", "Reopen"}
INVARIANT TypeOK
PROPERTIES SlabFrame ViewFrame GrowReadsZero AppendKeeps RawUnaffected RejectFrame
VIEW View
ACTION_CONSTRAINT Emit
CHECK_DEADLOCK FALSE
