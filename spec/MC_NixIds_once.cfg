SPECIFICATION Spec
CONSTANTS
  Procs = {"p1", "p2", "p3"}
  MaxClock = 0
  MaxIds = 4
  MaxStarts = 4
  SeedSource = "entropy_once"
  Acts = {"Fork"}
INVARIANT IdsUnique
CHECK_DEADLOCK FALSE
