---------------------------- MODULE NixCommon ----------------------------
(* Helpers shared by all nix specification modules.                       *)
EXTENDS Naturals, Integers, Sequences, FiniteSets, TLC, Json

NONE == -1

Range(f) == {f[x] : x \in DOMAIN f}

SeqMax(a, b) == IF a >= b THEN a ELSE b
SeqMin(a, b) == IF a <= b THEN a ELSE b

SetMax(S) == CHOOSE x \in S : \A y \in S : y <= x
SetMin(S) == CHOOSE x \in S : \A y \in S : x <= y

\* order-preserving removal of a set of elements from a sequence
Drop(q, D) == SelectSeq(q, LAMBDA x : x \notin D)

\* index of the first occurrence of x in q, 0 if absent
RECURSIVE IndexIn(_, _, _)
IndexIn(q, x, i) == IF i > Len(q) THEN 0 ELSE IF q[i] = x THEN i ELSE IndexIn(q, x, i + 1)
PosOf(q, x) == IndexIn(q, x, 1)

Contains(q, x) == \E i \in 1..Len(q) : q[i] = x

\* sorted sequence of a finite set of integers
RECURSIVE SortedSeq(_)
SortedSeq(S) == IF S = {} THEN <<>> ELSE LET m == SetMin(S) IN <<m>> \o SortedSeq(S \ {m})

\* One emitted line = one implementation test.  Always TRUE (used from ACTION_CONSTRAINT).
EmitJson(r) == PrintT(ToJson(r))
=============================================================================
