SPECIFICATION Spec
CONSTANTS
  Names = {"n1"}
  MaxCreates = 5
  Slots = {"blocks", "arrays", "mtags", "groups"}
  LinkSlotsOn = {"gmtags", "refs"}
  OneSlotsOn = {"positions"}
  Acts = {"Create", "Delete", "Link", "One"}
  MaxLife = 0
  MaxDims = 0
  MaxSteps = 7
  MaxGen = 1
  EmitActs = {"Delete"}
  EmitRes = "any"
  EmitWhen = "always"
INVARIANTS TypeOK NamesUniqueInv OrderInv NoDanglingInv EidsFresh SearchEqualsBruteForce BreadthFirst BackRefsEqualBruteForce
PROPERTIES DeleteFrame RejectFrame ReadOnlyFrame ReadOnlyRejects ReopenIdentity CloseSaves DurableAfterFlush FlushSaves
VIEW View
ACTION_CONSTRAINT Emit
CHECK_DEADLOCK FALSE
