SPECIFICATION Spec
CONSTANTS
  MaxBreaches = 4
  MaxSteps = 1
  Acts = {}
INVARIANTS Sound SoftNeverError Complete SoftWarns
PROPERTIES HistoryFree RepairRestores
VIEW View
ACTION_CONSTRAINT Emit
CHECK_DEADLOCK FALSE
