SPECIFICATION Spec
CONSTANT MaxBreaches = 4
INVARIANTS Sound SoftNeverError Complete
ACTION_CONSTRAINT Emit
CHECK_DEADLOCK FALSE
