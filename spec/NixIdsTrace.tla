----------------------------- MODULE NixIdsTrace -----------------------------
(* Validates a recorded multi-process execution of the real library against NixIds: every logged CreateId must be a  *)
(* step of the specification in which the id is NEW (the specification with SeedSource = "entropy" never issues an id *)
(* twice), ids are well-formed, and an entity's id re-read later equals the id logged at creation.                     *)
EXTENDS NixCommon, IOUtils
VARIABLES l, issued, started
TraceLog == ndJsonDeserialize(IOEnv.TRACE)
tvars == <<l, issued, started>>
TInit == l = 1 /\ issued = {} /\ started = {}
TStart == /\ l <= Len(TraceLog) /\ TraceLog[l].e = "Start" /\ started' = started \cup {TraceLog[l].p}
          /\ l' = l + 1 /\ UNCHANGED issued
\* a forked child / a thread of a running context becomes a context of its own (NixIds!Fork, NixIds!Thread)
TSpawn == /\ l <= Len(TraceLog) /\ TraceLog[l].e \in {"Fork", "Thread"} /\ TraceLog[l].parent \in started
          /\ started' = started \cup {TraceLog[l].p} /\ l' = l + 1 /\ UNCHANGED issued
\* CreateId(p): enabled only for a running process and an id that was never issued before
TCreate == /\ l <= Len(TraceLog) /\ TraceLog[l].e = "CreateId" /\ TraceLog[l].p \in started
           /\ TraceLog[l].wellformed /\ TraceLog[l].id \notin issued
           /\ issued' = issued \cup {TraceLog[l].id} /\ l' = l + 1 /\ UNCHANGED started
\* a later re-read of an entity's id (same or other session / process): must be the id issued at creation
TReread == /\ l <= Len(TraceLog) /\ TraceLog[l].e = "Reread" /\ TraceLog[l].id = TraceLog[l].created /\ TraceLog[l].id \in issued
           /\ l' = l + 1 /\ UNCHANGED <<issued, started>>
TNext == TStart \/ TSpawn \/ TCreate \/ TReread
TSpec == TInit /\ [][TNext]_tvars
\* the recorded execution is one line of events: position l determines the state, so the fingerprint need not hash the id set
TView == l
\* the "counterexample" printed on acceptance shows positions only (printing the id set per state is quadratic in the trace length)
TAlias == [pos |-> l]
\* violated exactly when the whole trace was consumed (used as INVARIANT: "violation" = accepted)
NotAccepted == l <= Len(TraceLog)
=============================================================================
