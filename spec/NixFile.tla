------------------------------ MODULE NixFile ------------------------------
(***************************************************************************)
(* Core specification of a NIX file: the entity forest, ordered owning     *)
(* containers, ordered link containers, single links, scalar attributes,   *)
(* dimension descriptor lists, and the life-cycle of the file (open mode,  *)
(* flush, close, crash, reopen).  One action per public API call; the      *)
(* outcome class (returned / threw) is recorded in `last`.                 *)
(*                                                                         *)
(* Properties decided on it: C02 (reopen identity), C03 (names, look-ups,  *)
(* order), C04 (deletion), C08 (rejected calls), C09 (read-only), C11      *)
(* (durability after flush / close), C12 (id stability, via the binding),  *)
(* C20 (searches and back references; see the Query section).              *)
(***************************************************************************)
EXTENDS NixCommon

CONSTANTS
  Names,        \* abstract entity names, e.g. {"n1", "n2"}
  MaxCreates,   \* bound on the number of entities created in one history
  Slots,        \* owning slots in which Create / Delete are enabled
  LinkSlotsOn,  \* link slots in which AddLink / RemoveLink are enabled
  OneSlotsOn,   \* single-link slots in which SetOne is enabled
  Acts,         \* enabled action classes (strings, see Next)
  MaxLife,      \* bound on close / crash / flush events per history
  MaxDims,      \* bound on dimension descriptors per array
  MaxSteps,     \* bound on the history length (0 = unbounded)
  MaxGen,       \* bound of the churn counter `gen` (0 = histories are identified by the state they reach)
  EmitActs,     \* emission filter: only transitions whose action is in this set are printed ...
  EmitRes,      \* ... and whose outcome is this ("any" = both)
  EmitWhen      \* ... "always", or "ro": only steps of / into / out of a read-only session

VARIABLES
  tree,      \* what the API shows: [eid -> entity record]; eid 0 is the file itself
  disk,      \* what a fresh open would find (tree as of the last flush / close)
  diskOk,    \* FALSE once the writing process was killed with unflushed changes
  open,      \* is there an open session
  mode,      \* "rw" | "ro"   (Overwrite behaves as rw after the open)
  dirty,     \* changes since the last flush / open
  nextEid,   \* allocator of model entity ids (bound to real UUIDs by the harness)
  retained,  \* eids whose C++ handle the client obtained in the current session (creation order)
  limbo,     \* deleted eids whose handle validity the property leaves open (descendants of a deleted
             \* entity other than the sub-sources / sub-sections that a delete removes explicitly)
  zl,        \* links <<holder, target>> that deleted holders still carry (a deleted entity whose handle the
             \* client retains keeps its HDF5 group, and with it its outgoing links, alive)
  ended,     \* how the previous session ended: "" | "close" | "crash" (part of the state so that a reopen
             \* after a kill is explored separately from a reopen after a close)
  gen,       \* churn counter: number of removing steps (delete, unlink, replace, delete-dimensions) so far,
             \* capped at MaxGen; part of the state so that "remove and add again" histories are explored
             \* as behaviours of their own instead of being merged with the state they return to
  life,      \* number of life-cycle events so far
  last,      \* ghost: the last call with its outcome
  hist       \* ghost: the calls that led here

vars == <<tree, disk, diskOk, open, mode, dirty, nextEid, retained, limbo, zl, ended, gen, life, last, hist>>

ROOT == 0
FOREIGN == -2      \* stands for an entity of the right kind that lives in ANOTHER file
UNINIT == -3       \* stands for an uninitialised (default-constructed) entity handle of the right kind

---------------------------------------------------------------------------
(* The static shape of the data model *)

OwnSlots(k) ==
  CASE k = "file"    -> {"blocks", "sections"}
    [] k = "block"   -> {"arrays", "frames", "tags", "mtags", "groups", "sources"}
    [] k = "section" -> {"sections", "props"}
    [] k = "source"  -> {"sources"}
    [] k = "tag"     -> {"features"}
    [] k = "mtag"    -> {"features"}
    [] OTHER         -> {}

ChildKind(s) ==
  CASE s = "blocks" -> "block"   [] s = "sections" -> "section" [] s = "arrays" -> "array"
    [] s = "frames" -> "frame"   [] s = "tags" -> "tag"         [] s = "mtags" -> "mtag"
    [] s = "groups" -> "group"   [] s = "sources" -> "source"   [] s = "props" -> "prop"
    [] s = "features" -> "feature"

LinkSlots(k) ==
  CASE k \in {"tag", "mtag"}    -> {"refs", "esources"}
    [] k \in {"array", "frame"} -> {"esources"}
    [] k = "group"              -> {"esources", "garrays", "gframes", "gtags", "gmtags"}
    [] OTHER                    -> {}

LinkTargetKind(s) ==
  CASE s = "refs" -> "array"     [] s = "esources" -> "source" [] s = "garrays" -> "array"
    [] s = "gframes" -> "frame"  [] s = "gtags" -> "tag"       [] s = "gmtags" -> "mtag"

OneSlots(k) ==
  CASE k \in {"block", "source", "array", "frame", "tag", "group"} -> {"metadata"}
    [] k = "mtag"    -> {"metadata", "positions", "extents"}
    [] k = "feature" -> {"data"}
    [] k = "section" -> {"link"}
    [] OTHER         -> {}

OneTargetKind(s) == IF s \in {"metadata", "link"} THEN "section" ELSE "array"
\* targets of these slots must live in the same block as the holder; the others anywhere in the file
BlockScoped(s) == s \notin {"metadata", "link"}

Named(k) == k \notin {"feature", "file"}

---------------------------------------------------------------------------
(* Tree helpers (t is a tree value, so that they apply to tree, tree' and disk) *)

Live(t) == DOMAIN t
Kids(t, e, s) == t[e].kids[s]
One(t, e, s) == t[e].one[s]

RECURSIVE Sub(_, _)
Sub(t, e) == {e} \cup UNION {Sub(t, c) : c \in UNION {Range(Kids(t, e, s)) : s \in OwnSlots(t[e].kind)}}

RECURSIVE BlockOf(_, _)
BlockOf(t, e) == IF e = ROOT THEN NONE ELSE IF t[e].kind = "block" THEN e ELSE BlockOf(t, t[e].par)

RECURSIVE DepthOf(_, _)
DepthOf(t, e) == IF e = ROOT THEN 0 ELSE 1 + DepthOf(t, t[e].par)

ByName(t, p, s, n) == LET m == {c \in Range(Kids(t, p, s)) : t[c].name = n}
                      IN IF m = {} THEN NONE ELSE CHOOSE c \in m : TRUE

NewEnt(k, n, ty, p, s, v) ==
  [kind |-> k, name |-> n, type |-> ty, def |-> 0, par |-> p, slot |-> s,
   \* attr: stamp of the kind-specific scalars (0 = as created); a feature's stamp is its link type
   attr |-> IF k = "feature" /\ v = 2 THEN 2 ELSE 0,
   \* sh: shape class of an array (fixed at creation)
   sh |-> IF k = "array" THEN v ELSE 0,
   kids |-> [x \in OwnSlots(k) \cup LinkSlots(k) |-> <<>>],
   one  |-> [x \in OneSlots(k) |-> NONE],
   dims |-> <<>>]

EmptyTree == [e \in {ROOT} |-> NewEnt("file", "", "", NONE, "", 0)]

\* removal of a set D of entities: they vanish, every container and every single link lets go of
\* them, a data-frame dimension loses its frame; everything else is untouched
Prune(t, D) ==
  [e \in Live(t) \ D |->
     [t[e] EXCEPT !.kids = [s \in DOMAIN t[e].kids |-> Drop(t[e].kids[s], D)],
                  !.one  = [s \in DOMAIN t[e].one |-> IF t[e].one[s] \in D THEN NONE ELSE t[e].one[s]],
                  !.dims = [i \in DOMAIN t[e].dims |->
                              IF t[e].dims[i].f \in D THEN [t[e].dims[i] EXCEPT !.f = NONE] ELSE t[e].dims[i]]]]

---------------------------------------------------------------------------
(* Bookkeeping of calls *)

NoArgs == [p |-> 0, slot |-> "", n |-> "", t |-> 0, by |-> "", v |-> 0]
Call(a, args, res, new) == [a |-> a, args |-> args, res |-> res, new |-> new, out |-> <<>>]
Record(c) == last' = c /\ hist' = Append(hist, c)

Writable == open /\ mode = "rw"
Budget == MaxSteps = 0 \/ Len(hist) < MaxSteps

\* a call that throws: nothing changes (this is the DESIGN; property C08)
Reject(a, args) ==
  /\ UNCHANGED <<tree, disk, diskOk, open, mode, dirty, nextEid, retained, limbo, zl, ended, gen, life>>
  /\ Record(Call(a, args, "reject", 0))

\* a call that returns without effect (e.g. delete of something absent returns false)
NoEffect(a, args) ==
  /\ UNCHANGED <<tree, disk, diskOk, open, mode, dirty, nextEid, retained, limbo, zl, ended, gen, life>>
  /\ Record(Call(a, args, "ok", 0))

\* everything entity y links to (link containers, single links, data-frame dimensions)
LinkTargets(t, y) == (UNION {Range(t[y].kids[s]) : s \in LinkSlots(t[y].kind)})
                     \cup ({t[y].one[s] : s \in DOMAIN t[y].one} \ {NONE})
                     \cup ({t[y].dims[i].f : i \in DOMAIN t[y].dims} \ {NONE})

\* entities of the subtree of c whose handles are explicitly dead after Delete(c): c itself and, because
\* sources and sections are deleted recursively, all sub-sources / sub-sections below it
RECURSIVE SameKindSub(_, _, _)
SameKindSub(t, e, s) == {e} \cup UNION {SameKindSub(t, c, s) : c \in Range(Kids(t, e, s))}
Explicit(t, c) == IF t[c].kind = "source" THEN SameKindSub(t, c, "sources")
                  ELSE IF t[c].kind = "section" THEN SameKindSub(t, c, "sections") ELSE {c}

Mutated(a, args, t2, new) ==
  /\ tree' = t2 /\ dirty' = TRUE
  /\ limbo' = IF a = "Delete" THEN limbo \cup (Sub(tree, args.t) \ Explicit(tree, args.t)) ELSE limbo
  /\ zl' = IF a = "Delete" THEN zl \cup UNION {{<<y, x>> : x \in LinkTargets(tree, y)} : y \in Sub(tree, args.t)} ELSE zl
  /\ retained' = IF new # 0 THEN Append(retained, new) ELSE retained
  /\ nextEid' = IF new # 0 THEN nextEid + 1 ELSE nextEid
  \* churn: something that existed was taken away (a delete that also takes links of OTHER entities away counts twice, so that
  \* histories in which a link was set and then lost through a cascade are told apart from those that never had it)
  /\ gen' = LET inc == (IF a \in {"Delete", "RemoveLink", "DeleteDims"} \/ (a = "SetOne" /\ tree[args.p].one[args.slot] # NONE) THEN 1 ELSE 0)
                      + (IF a = "Delete" /\ \E y \in Live(tree) \ Sub(tree, args.t) : LinkTargets(tree, y) \cap Sub(tree, args.t) # {} THEN 1 ELSE 0)
             IN IF gen + inc <= MaxGen THEN gen + inc ELSE MaxGen
  /\ UNCHANGED <<disk, diskOk, open, mode, ended, life>>
  /\ Record(Call(a, args, "ok", new))

---------------------------------------------------------------------------
(* Entity management *)

\* x: kind-specific extra argument: positions array of a multi-tag, data array of a feature
\* v: initial attribute stamp (shape class of an array, link type of a feature, ...)
CreateOk(p, s, n, x, v) ==
  LET k == ChildKind(s) IN
  /\ (Named(k) => ByName(tree, p, s, n) = NONE)
  /\ (k \in {"mtag", "feature"} =>
        /\ x \in Live(tree) /\ tree[x].kind = "array"
        /\ BlockOf(tree, x) = BlockOf(tree, p))

Create(p, s, n, x, v) ==
  LET k == ChildKind(s)
      args == [p |-> p, slot |-> s, n |-> n, t |-> x, by |-> "", v |-> v] IN
  /\ open /\ Budget /\ p \in Live(tree) /\ s \in OwnSlots(tree[p].kind) /\ s \in Slots
  /\ nextEid <= MaxCreates
  /\ (k \notin {"mtag", "feature"} => x = NONE)
  /\ (Named(k) => n \in Names) /\ (~Named(k) => n = "")
  /\ IF ~Writable \/ ~CreateOk(p, s, n, x, v) THEN Reject("Create", args)
     ELSE LET e == nextEid
              rec0 == NewEnt(k, n, "t1", p, s, v)
              rec == IF k = "mtag" THEN [rec0 EXCEPT !.one["positions"] = x]
                     ELSE IF k = "feature" THEN [rec0 EXCEPT !.one["data"] = x] ELSE rec0
              t1 == [i \in Live(tree) \cup {e} |-> IF i = e THEN rec ELSE tree[i]]
              t2 == [t1 EXCEPT ![p].kids[s] = Append(@, e)]
          IN Mutated("Create", args, t2, e)

\* invalid arguments of a create call: empty name, name with '/', empty type, and -- for multi-tags
\* and features -- a target array from another block or another file
CreateBad(p, s, why, x) ==
  LET k == ChildKind(s)
      args == [p |-> p, slot |-> s, n |-> why, t |-> x, by |-> "", v |-> 1] IN
  /\ open /\ Budget /\ p \in Live(tree) /\ s \in OwnSlots(tree[p].kind) /\ s \in Slots
  /\ \/ why \in {"emptyname", "slashname", "emptytype"} /\ Named(k)
        /\ (why = "emptytype" => k # "prop")        \* properties have no type
        /\ (IF k \in {"mtag"} THEN x \in Live(tree) /\ tree[x].kind = "array" /\ BlockOf(tree, x) = BlockOf(tree, p)
            ELSE x = NONE)
     \/ why = "foreign" /\ k \in {"mtag", "feature"}
        /\ \/ x = FOREIGN
           \/ x \in Live(tree) /\ tree[x].kind = "array" /\ BlockOf(tree, x) # BlockOf(tree, p)
  /\ Reject("CreateBad", args)

Delete(p, s, c, by) ==
  LET args == [p |-> p, slot |-> s, n |-> "", t |-> c, by |-> by, v |-> 0] IN
  /\ open /\ Budget /\ p \in Live(tree) /\ s \in OwnSlots(tree[p].kind) /\ s \in Slots
  /\ c \in Range(Kids(tree, p, s))
  /\ by \in (IF Named(ChildKind(s)) THEN {"name", "id", "handle"} ELSE {"id", "handle"})
  /\ (by = "handle" => Contains(retained, c))
  /\ IF ~Writable THEN Reject("Delete", args)
     ELSE Mutated("Delete", args, Prune(tree, Sub(tree, c)), 0)

\* delete of something that is not (or no longer) there: returns false, changes nothing
DeleteAbsent(p, s, c, by) ==
  LET args == [p |-> p, slot |-> s, n |-> "", t |-> c, by |-> by, v |-> 0] IN
  /\ Writable /\ Budget /\ p \in Live(tree) /\ s \in OwnSlots(tree[p].kind) /\ s \in Slots
  /\ c \in 1..(nextEid - 1) /\ c \notin Live(tree) /\ Contains(retained, c)
  /\ by \in {"id", "handle"}
  /\ NoEffect("DeleteAbsent", args)

---------------------------------------------------------------------------
(* Links *)

\* Named deviation (observed; outside the listed properties): Tag/MultiTag::addReference(DataArray) and
\* removeReference(DataArray) hand the array's NAME to the backend, which resolves it in the tag's own block.  A handle
\* of an array of ANOTHER block therefore acts on its namesake in the tag's block when there is one (and is refused /
\* has no effect otherwise); hasReference(DataArray) compares name and id and so keeps denying the foreign handle.
Eff(h, s, t, by) ==
  IF s = "refs" /\ by = "handle" /\ t \in Live(tree)
  THEN LET c == {x \in Live(tree) : tree[x].kind = "array" /\ BlockOf(tree, x) = BlockOf(tree, h) /\ tree[x].name = tree[t].name}
       IN IF c # {} THEN CHOOSE x \in c : TRUE ELSE t
  ELSE t

LinkOk(h, s, t) ==
  /\ t \in Live(tree) /\ tree[t].kind = LinkTargetKind(s)
  /\ BlockOf(tree, t) = BlockOf(tree, h)
  /\ ~Contains(Kids(tree, h, s), t)

AddLink(h, s, t, by) ==
  LET args == [p |-> h, slot |-> s, n |-> "", t |-> t, by |-> by, v |-> 0] IN
  /\ open /\ Budget /\ h \in Live(tree) /\ s \in LinkSlots(tree[h].kind) /\ s \in LinkSlotsOn
  /\ \/ t \in Live(tree) /\ tree[t].kind = LinkTargetKind(s)
     \/ t = FOREIGN /\ "Foreign" \in Acts
  /\ by \in {"id", "handle"} /\ (by = "handle" /\ t # FOREIGN => Contains(retained, t))
  /\ IF ~Writable \/ ~LinkOk(h, s, Eff(h, s, t, by)) THEN Reject("AddLink", args)
     ELSE Mutated("AddLink", args, [tree EXCEPT ![h].kids[s] = Append(@, Eff(h, s, t, by))], 0)

RemoveLink(h, s, t, by) ==
  LET args == [p |-> h, slot |-> s, n |-> "", t |-> t, by |-> by, v |-> 0] IN
  /\ open /\ Budget /\ h \in Live(tree) /\ s \in LinkSlots(tree[h].kind) /\ s \in LinkSlotsOn
  /\ t \in Live(tree) /\ tree[t].kind = LinkTargetKind(s)
  /\ by \in {"id", "handle"} /\ (by = "handle" => Contains(retained, t))
  /\ IF ~Writable THEN (IF Contains(Kids(tree, h, s), Eff(h, s, t, by)) THEN Reject("RemoveLink", args) ELSE FALSE)
     ELSE IF Contains(Kids(tree, h, s), Eff(h, s, t, by))
       THEN Mutated("RemoveLink", args, [tree EXCEPT ![h].kids[s] = Drop(@, {Eff(h, s, t, by)})], 0)
       ELSE NoEffect("RemoveLink", args)

\* vector setters (references(vector), sources(vector), group members(vector)): the container is replaced by the given
\* sequence, in the given order.  q: sequence of distinct targets.  A target outside the holder's block (or in another
\* file) makes the whole call fail and nothing changes - except for sources(vector), which is documented by the code
\* to skip sources that are not in the block (named deviation from the uniform rule, modelled as the code behaves);
\* its membership test only knows the TOP-LEVEL sources of the block, so nested sources are skipped as well
\* (observed behaviour, differs from addSource(id) which accepts nested sources; no listed property covers it).
SetLinks(h, s, q) ==
  LET args == [p |-> h, slot |-> s, n |-> "", t |-> 0, by |-> "", v |-> 0]
      inBlock(t) == t \in Live(tree) /\ tree[t].kind = LinkTargetKind(s) /\ BlockOf(tree, t) = BlockOf(tree, h)
      call == [Call("SetLinks", args, "ok", 0) EXCEPT !.out = q] IN
  /\ open /\ Budget /\ h \in Live(tree) /\ s \in LinkSlots(tree[h].kind) /\ s \in LinkSlotsOn
  /\ \A i \in 1..Len(q) : (q[i] \in {FOREIGN, UNINIT} /\ "Foreign" \in Acts) \/ (q[i] \in Live(tree) /\ tree[q[i]].kind = LinkTargetKind(s))
  \* the same target twice, or an uninitialised handle, in the list: the whole call fails (not offered for sources(vector), which
  \* skips instead of failing - see above)
  /\ (s = "esources" \/ "Foreign" \notin Acts) => ((\A i, j \in 1..Len(q) : i # j => q[i] # q[j]) /\ \A i \in 1..Len(q) : q[i] # UNINIT)
  \* replacing nothing by nothing writes nothing: not a mutating call (it returns also in a read-only session)
  /\ (~Writable => (Kids(tree, h, s) # <<>> \/ (IF s = "esources" THEN \E i \in 1..Len(q) : inBlock(q[i]) /\ tree[q[i]].par = BlockOf(tree, h) ELSE q # <<>>)))
  /\ IF ~Writable \/ (s # "esources" /\ ((\E i \in 1..Len(q) : ~inBlock(q[i])) \/ (\E i, j \in 1..Len(q) : i # j /\ q[i] = q[j])))
       THEN /\ UNCHANGED <<tree, disk, diskOk, open, mode, dirty, nextEid, retained, limbo, zl, ended, gen, life>>
            /\ last' = [call EXCEPT !.res = "reject"] /\ hist' = Append(hist, [call EXCEPT !.res = "reject"])
       ELSE /\ tree' = [tree EXCEPT ![h].kids[s] = SelectSeq(q, LAMBDA t : inBlock(t) /\ (s = "esources" => tree[t].par = BlockOf(tree, h)))]
            /\ dirty' = TRUE
            /\ gen' = IF gen < MaxGen /\ Kids(tree, h, s) # <<>> THEN gen + 1 ELSE gen
            /\ UNCHANGED <<disk, diskOk, open, mode, nextEid, retained, limbo, zl, ended, life>>
            /\ last' = call /\ hist' = Append(hist, call)

OneOk(h, s, t) ==
  \/ t = NONE /\ s # "positions" /\ s # "data"
  \/ /\ t \in Live(tree) /\ tree[t].kind = OneTargetKind(s)
     /\ (BlockScoped(s) => BlockOf(tree, t) = BlockOf(tree, h))
     \* extents must have the shape of the positions (shape class sh of the array)
     /\ (s = "extents" => One(tree, h, "positions") # NONE /\ tree[One(tree, h, "positions")].sh = tree[t].sh)

SetOne(h, s, t) ==
  LET args == [p |-> h, slot |-> s, n |-> "", t |-> t, by |-> "", v |-> 0] IN
  /\ open /\ Budget /\ h \in Live(tree) /\ s \in OneSlots(tree[h].kind) /\ s \in OneSlotsOn
  /\ \/ t = NONE /\ s \notin {"positions", "data"}
     \/ t \in Live(tree) /\ tree[t].kind = OneTargetKind(s)
     \/ t = FOREIGN /\ "Foreign" \in Acts
  /\ IF ~Writable \/ ~OneOk(h, s, t) THEN Reject("SetOne", args)
     ELSE Mutated("SetOne", args, [tree EXCEPT ![h].one[s] = t], 0)

---------------------------------------------------------------------------
(* Scalar attributes.  `attr` is a stamp: the harness maps stamp v of an entity of kind k to a whole *)
(* bundle of kind-specific values (label, unit, origin, coefficients, data for arrays; position,     *)
(* extent, units for tags; values, unit, uncertainty for properties; repository for sections ...)    *)

SetAttr(e, v) ==
  LET args == [p |-> e, slot |-> "", n |-> "", t |-> 0, by |-> "", v |-> v] IN
  /\ open /\ Budget /\ e \in Live(tree) /\ e # ROOT /\ tree[e].kind \notin {"block", "source", "group"}
  /\ IF ~Writable THEN Reject("SetAttr", args)
     ELSE Mutated("SetAttr", args, [tree EXCEPT ![e].attr = v], 0)

SetType(e, ty) ==
  LET args == [p |-> e, slot |-> "", n |-> ty, t |-> 0, by |-> "", v |-> 0] IN
  /\ open /\ Budget /\ e \in Live(tree) /\ e # ROOT /\ Named(tree[e].kind) /\ tree[e].kind # "prop"
  /\ IF ~Writable \/ ty = "" THEN Reject("SetType", args)
     ELSE Mutated("SetType", args, [tree EXCEPT ![e].type = ty], 0)

SetDef(e, d) ==
  LET args == [p |-> e, slot |-> "", n |-> "", t |-> 0, by |-> "", v |-> d] IN
  /\ open /\ Budget /\ e \in Live(tree) /\ e # ROOT /\ Named(tree[e].kind)
  /\ IF ~Writable THEN Reject("SetDef", args)
     ELSE Mutated("SetDef", args, [tree EXCEPT ![e].def = d], 0)

---------------------------------------------------------------------------
(* Dimension descriptors of an array (details of each kind: module NixDims) *)

DimKinds == {"set", "sampled", "range", "frame"}

AppendDim(a, k, f) ==
  LET args == [p |-> a, slot |-> k, n |-> "", t |-> f, by |-> "", v |-> 0] IN
  /\ open /\ Budget /\ a \in Live(tree) /\ tree[a].kind = "array" /\ Len(tree[a].dims) < MaxDims
  /\ k \in DimKinds
  /\ IF k = "frame" THEN f \in Live(tree) /\ tree[f].kind = "frame" /\ BlockOf(tree, f) = BlockOf(tree, a) ELSE f = NONE
  /\ IF ~Writable THEN Reject("AppendDim", args)
     ELSE Mutated("AppendDim", args, [tree EXCEPT ![a].dims = Append(@, [k |-> k, f |-> f])], 0)

DeleteDims(a) ==
  LET args == [p |-> a, slot |-> "", n |-> "", t |-> 0, by |-> "", v |-> 0] IN
  /\ open /\ Budget /\ a \in Live(tree) /\ tree[a].kind = "array" /\ tree[a].dims # <<>>
  /\ IF ~Writable THEN Reject("DeleteDims", args)
     ELSE Mutated("DeleteDims", args, [tree EXCEPT ![a].dims = <<>>], 0)

---------------------------------------------------------------------------
(* Life-cycle *)

LifeStep(a, m) == /\ life < MaxLife /\ life' = life + 1 /\ Budget
                  /\ Record(Call(a, [NoArgs EXCEPT !.n = m], "ok", 0))

Flush == /\ open /\ LifeStep("Flush", "")
         /\ disk' = (IF mode = "rw" THEN tree ELSE disk) /\ dirty' = FALSE
         /\ UNCHANGED <<tree, diskOk, open, mode, nextEid, retained, limbo, zl, ended, gen>>

Close == /\ open /\ LifeStep("Close", "")
         /\ disk' = (IF mode = "rw" THEN tree ELSE disk) /\ dirty' = FALSE /\ open' = FALSE
         /\ ended' = "close"
         /\ UNCHANGED <<tree, diskOk, mode, nextEid, retained, limbo, zl, gen>>

\* the writing process is killed (SIGKILL): the session is gone; the file is intact iff nothing was
\* modified since the last flush
Crash == /\ open /\ LifeStep("Crash", "")
         /\ diskOk' = (diskOk /\ (~dirty \/ mode = "ro")) /\ open' = FALSE /\ dirty' = FALSE
         /\ ended' = "crash"
         /\ retained' = <<>> /\ limbo' = {} /\ zl' = {}     \* the process and all its handles are gone
         /\ UNCHANGED <<tree, disk, mode, nextEid, gen>>

Open(m) == /\ ~open /\ diskOk /\ m \in {"rw", "ro", "ow"} /\ LifeStep("Open", m)
           /\ open' = TRUE /\ mode' = (IF m = "ro" THEN "ro" ELSE "rw")
           \* creating / truncating a file and opening it for writing (time stamps are updated) count as
           \* modifications: the durability guarantee starts with the next flush or close
           /\ dirty' = (m # "ro")
           /\ tree' = (IF m = "ow" THEN EmptyTree ELSE disk)
           /\ disk' = (IF m = "ow" THEN EmptyTree ELSE disk)
           /\ retained' = <<>> /\ limbo' = {} /\ zl' = {}
           /\ UNCHANGED <<diskOk, nextEid, ended, gen>>

---------------------------------------------------------------------------
(* Queries (C20): tree searches with filter and depth limit, inherited properties, back references.  *)
(* They are defined here as plain recursive traversals of the tree; the implementation computes them *)
(* with work lists, filters over enumerations and link look-ups.                                     *)

RECURSIVE ConcatKids(_, _, _, _)
ConcatKids(t, q, s, i) == IF i > Len(q) THEN <<>> ELSE Kids(t, q[i], s) \o ConcatKids(t, q, s, i + 1)
\* breadth-first listing: the frontier q itself, then level by level; d = remaining depth (-1 = unlimited)
RECURSIVE BFSFrom(_, _, _, _)
BFSFrom(t, q, s, d) == IF q = <<>> THEN <<>>
                       ELSE q \o (IF d = 0 THEN <<>> ELSE BFSFrom(t, ConcatKids(t, q, s, 1), s, IF d = -1 THEN -1 ELSE d - 1))
RECURSIVE FlatMapSeq(_, _, _)
FlatMapSeq(F(_), q, i) == IF i > Len(q) THEN <<>> ELSE F(q[i]) \o FlatMapSeq(F, q, i + 1)

\* depth conventions of the four entry points
SectionSearch(t, e, d) == IF d = 0 THEN <<>> ELSE BFSFrom(t, Kids(t, e, "sections"), "sections", IF d = -1 THEN -1 ELSE d - 1)
SourceSearch(t, e, d) == BFSFrom(t, <<e>>, "sources", d)
FileSectionSearch(t, d) == IF d = 0 THEN <<>>
                           ELSE LET F(r) == <<r>> \o SectionSearch(t, r, IF d = -1 THEN -1 ELSE d - 1) IN FlatMapSeq(F, Kids(t, ROOT, "sections"), 1)
BlockSourceSearch(t, b, d) == LET F(r) == SourceSearch(t, r, d) IN FlatMapSeq(F, Kids(t, b, "sources"), 1)

Pass(t, flt, e) == CASE flt.f = "all" -> TRUE [] flt.f = "id" -> e = flt.x [] flt.f = "name" -> t[e].name = flt.n
                     [] flt.f = "type" -> t[e].type = flt.n [] flt.f = "ids" -> e \in {flt.x, flt.y}
Filtered(t, flt, q) == SelectSeq(q, LAMBDA e : Pass(t, flt, e))

\* the brute-force definition the searches must agree with: all proper descendants within depth d
RECURSIVE Desc(_, _, _, _)
Desc(t, e, s, d) == IF d = 0 THEN {} ELSE UNION {{c} \cup Desc(t, c, s, IF d = -1 THEN -1 ELSE d - 1) : c \in Range(Kids(t, e, s))}

\* inherited properties: own ones, then those of the linked section that are not shadowed by name
InheritedProps(t, e) ==
  LET own == Kids(t, e, "props")
      l == One(t, e, "link")
  IN IF l = NONE THEN own
     ELSE own \o SelectSeq(Kids(t, l, "props"), LAMBDA p : \A i \in 1..Len(own) : t[own[i]].name # t[p].name)

\* back references, in the order the implementation enumerates them (blocks in file order, containers in order)
KindIn(t, b, slot) == Kids(t, b, slot)
ReferringIn(t, sec, q) == SelectSeq(q, LAMBDA e : One(t, e, "metadata") = sec)
AllBlocks(t) == Kids(t, ROOT, "blocks")
ReferringBlocks(t, sec) == ReferringIn(t, sec, AllBlocks(t))
ReferringOfKind(t, sec, slot) == LET F(b) == ReferringIn(t, sec, Kids(t, b, slot)) IN FlatMapSeq(F, AllBlocks(t), 1)
ReferringSources(t, sec) == LET F(b) == ReferringIn(t, sec, BlockSourceSearch(t, b, -1)) IN FlatMapSeq(F, AllBlocks(t), 1)
AttachedTo(t, src, slot) == SelectSeq(Kids(t, BlockOf(t, src), slot), LAMBDA e : Contains(Kids(t, e, "esources"), src))
ParentSource(t, src) == IF t[t[src].par].kind = "source" THEN t[src].par ELSE NONE

QDepths == <<0, 1, 2, 3, -1>>
NoFlt == [f |-> "all", x |-> 0, y |-> 0, n |-> ""]
FiltersOf(t, k) ==
  LET es == SortedSeq({e \in Live(t) : t[e].kind = k}) IN
  <<NoFlt, [NoFlt EXCEPT !.f = "name", !.n = "n1"], [NoFlt EXCEPT !.f = "name", !.n = "n2"], [NoFlt EXCEPT !.f = "type", !.n = "t1"], [NoFlt EXCEPT !.f = "type", !.n = "t2"]>>
  \o [i \in 1..Len(es) |-> [NoFlt EXCEPT !.f = "id", !.x = es[i]]]
  \o (IF Len(es) >= 2 THEN <<[NoFlt EXCEPT !.f = "ids", !.x = es[1], !.y = es[Len(es)]]>> ELSE <<>>)
QRec(k, e, flt, d, out) == [k |-> k, e |-> e, flt |-> flt, d |-> d, out |-> out]

\* one query per (filter, depth) for a search whose result is R(filter, depth)
QFamily(t, name, e, fk, R(_, _)) ==
  LET PerF(flt) == LET PerD(d) == <<QRec(name, e, flt, d, R(flt, d))>> IN FlatMapSeq(PerD, QDepths, 1)
  IN FlatMapSeq(PerF, FiltersOf(t, fk), 1)

\* every query of the vocabulary in state t, with its result
AllQueries(t) ==
  LET secs == SortedSeq({e \in Live(t) : t[e].kind = "section"})
      srcs == SortedSeq({e \in Live(t) : t[e].kind = "source"})
      blks == AllBlocks(t)
      SecQ(e) == LET R(flt, d) == Filtered(t, flt, SectionSearch(t, e, d)) IN QFamily(t, "findSections", e, "section", R)
      SrcQ(e) == LET R(flt, d) == Filtered(t, flt, SourceSearch(t, e, d)) IN QFamily(t, "findSources", e, "source", R)
      BlkQ(b) == LET R(flt, d) == Filtered(t, flt, BlockSourceSearch(t, b, d)) IN QFamily(t, "blockFindSources", b, "source", R)
      FileQ == LET R(flt, d) == Filtered(t, flt, FileSectionSearch(t, d)) IN QFamily(t, "fileFindSections", 0, "section", R)
      SecRef(e) == <<QRec("inheritedProperties", e, NoFlt, 0, InheritedProps(t, e)),
                     QRec("referringBlocks", e, NoFlt, 0, ReferringBlocks(t, e)),
                     QRec("referringDataArrays", e, NoFlt, 0, ReferringOfKind(t, e, "arrays")),
                     QRec("referringTags", e, NoFlt, 0, ReferringOfKind(t, e, "tags")),
                     QRec("referringMultiTags", e, NoFlt, 0, ReferringOfKind(t, e, "mtags")),
                     QRec("referringSources", e, NoFlt, 0, ReferringSources(t, e))>>
      SrcRef(e) == <<QRec("srcReferringDataArrays", e, NoFlt, 0, AttachedTo(t, e, "arrays")),
                     QRec("srcReferringTags", e, NoFlt, 0, AttachedTo(t, e, "tags")),
                     QRec("srcReferringMultiTags", e, NoFlt, 0, AttachedTo(t, e, "mtags")),
                     QRec("parentSource", e, NoFlt, 0, IF ParentSource(t, e) = NONE THEN <<>> ELSE <<ParentSource(t, e)>>)>>
  IN FlatMapSeq(SecQ, secs, 1) \o FileQ \o FlatMapSeq(SrcQ, srcs, 1) \o FlatMapSeq(BlkQ, blks, 1)
     \o FlatMapSeq(SecRef, secs, 1) \o FlatMapSeq(SrcRef, srcs, 1)

\* one self-loop per state that carries all queries and their results
QueryAll ==
  /\ open /\ Budget
  /\ UNCHANGED <<tree, disk, diskOk, open, mode, dirty, nextEid, retained, limbo, zl, ended, gen, life>>
  /\ last' = [Call("QueryAll", NoArgs, "ok", 0) EXCEPT !.out = AllQueries(tree)]
  /\ hist' = hist

\* C20 on the design: a search lists exactly the descendants within the depth, each once
SearchEqualsBruteForce ==
  \A e \in Live(tree) :
     /\ (tree[e].kind = "section" => \A i \in 1..Len(QDepths) :
            LET r == SectionSearch(tree, e, QDepths[i]) IN
            Range(r) = Desc(tree, e, "sections", QDepths[i]) /\ Len(r) = Cardinality(Range(r)))
     /\ (tree[e].kind = "source" => \A i \in 1..Len(QDepths) :
            LET r == SourceSearch(tree, e, QDepths[i]) IN
            Range(r) = {e} \cup Desc(tree, e, "sources", QDepths[i]) /\ Len(r) = Cardinality(Range(r)))
\* breadth-first: depths along a single-root search never decrease
BreadthFirst ==
  \A e \in Live(tree) : tree[e].kind \in {"section", "source"} =>
     LET r == IF tree[e].kind = "section" THEN SectionSearch(tree, e, -1) ELSE SourceSearch(tree, e, -1) IN
     \A i, j \in 1..Len(r) : i < j => DepthOf(tree, r[i]) <= DepthOf(tree, r[j])
BackRefsEqualBruteForce ==
  \A e \in Live(tree) : tree[e].kind = "section" =>
     Range(ReferringOfKind(tree, e, "arrays")) = {a \in Live(tree) : tree[a].kind = "array" /\ One(tree, a, "metadata") = e}

---------------------------------------------------------------------------
Init ==
  /\ tree = EmptyTree /\ disk = EmptyTree /\ diskOk = TRUE /\ open = TRUE /\ mode = "rw" /\ dirty = TRUE
  /\ nextEid = 1 /\ retained = <<>> /\ limbo = {} /\ zl = {} /\ ended = "" /\ gen = 0 /\ life = 0
  /\ last = Call("Init", NoArgs, "ok", 0) /\ hist = <<>>

ArraysOrNone == {NONE} \cup {x \in Live(tree) : tree[x].kind = "array"}

Next ==
  \/ "Create" \in Acts /\ \E p \in Live(tree), s \in Slots, n \in Names \cup {""}, x \in ArraysOrNone, v \in {1, 2} :
        /\ (ChildKind(s) \notin {"array", "feature"} => v = 1)
        /\ Create(p, s, n, x, v)
  \/ "CreateBad" \in Acts /\ \E p \in Live(tree), s \in Slots, w \in {"emptyname", "slashname", "emptytype", "foreign"},
                                x \in ArraysOrNone \cup {FOREIGN} : CreateBad(p, s, w, x)
  \/ "Delete" \in Acts /\ \E p \in Live(tree), s \in Slots, c \in Live(tree), by \in {"name", "id", "handle"} : Delete(p, s, c, by)
  \/ "DeleteAbsent" \in Acts /\ \E p \in Live(tree), s \in Slots, c \in 1..MaxCreates, by \in {"id", "handle"} : DeleteAbsent(p, s, c, by)
  \/ "Link" \in Acts /\ \E h \in Live(tree), s \in LinkSlotsOn, t \in Live(tree) \cup {FOREIGN}, by \in {"id", "handle"} : AddLink(h, s, t, by)
  \/ "Link" \in Acts /\ \E h \in Live(tree), s \in LinkSlotsOn, t \in Live(tree), by \in {"id", "handle"} : RemoveLink(h, s, t, by)
  \/ "Links" \in Acts /\ \E h \in Live(tree), s \in LinkSlotsOn, a \in Live(tree) \cup {FOREIGN, UNINIT, NONE}, b \in Live(tree) \cup {FOREIGN, UNINIT, NONE} :
        SetLinks(h, s, (IF a = NONE THEN <<>> ELSE <<a>>) \o (IF b = NONE THEN <<>> ELSE <<b>>))
  \/ "One" \in Acts /\ \E h \in Live(tree), s \in OneSlotsOn, t \in Live(tree) \cup {NONE, FOREIGN} : SetOne(h, s, t)
  \/ "Attr" \in Acts /\ \E e \in Live(tree), v \in {1, 2} : SetAttr(e, v)
  \/ "Type" \in Acts /\ \E e \in Live(tree), ty \in {"t2", ""} : SetType(e, ty)
  \/ "Def" \in Acts /\ \E e \in Live(tree), d \in {0, 1} : SetDef(e, d)
  \/ "Dims" \in Acts /\ \E a \in Live(tree), k \in DimKinds, f \in Live(tree) \cup {NONE} : AppendDim(a, k, f)
  \/ "Dims" \in Acts /\ \E a \in Live(tree) : DeleteDims(a)
  \/ "Flush" \in Acts /\ Flush
  \/ "Close" \in Acts /\ Close
  \/ "Crash" \in Acts /\ Crash
  \/ "Open" \in Acts /\ \E m \in {"rw", "ro"} : Open(m)
  \/ "OpenOw" \in Acts /\ Open("ow")
  \/ "Query" \in Acts /\ QueryAll

Spec == Init /\ [][Next]_vars

---------------------------------------------------------------------------
(* What TLC checks on the design itself *)

TypeOK ==
  /\ ROOT \in Live(tree) /\ tree[ROOT].kind = "file"
  /\ \A e \in Live(tree) : e = ROOT \/ (tree[e].par \in Live(tree) /\ Contains(Kids(tree, tree[e].par, tree[e].slot), e))

\* C03: within one parent and kind no two entities share a name
NamesUnique(t) ==
  \A p \in Live(t) : \A s \in OwnSlots(t[p].kind) :
     \A i, j \in 1..Len(Kids(t, p, s)) :
        (i # j /\ Named(ChildKind(s))) => t[Kids(t, p, s)[i]].name # t[Kids(t, p, s)[j]].name
NamesUniqueInv == NamesUnique(tree) /\ NamesUnique(disk)

\* C03: containers have no duplicates and are in creation order (eids are allocated in creation order)
Ordered(t) ==
  \A p \in Live(t) : \A s \in OwnSlots(t[p].kind) :
     \A i, j \in 1..Len(Kids(t, p, s)) : i < j => Kids(t, p, s)[i] < Kids(t, p, s)[j]
OrderInv == Ordered(tree) /\ Ordered(disk)

\* C04: nothing refers to an entity that does not exist; block-scoped links stay inside the block
NoDangling(t) ==
  \A e \in Live(t) :
    /\ \A s \in DOMAIN t[e].kids : Range(t[e].kids[s]) \subseteq Live(t)
    /\ \A s \in DOMAIN t[e].one : t[e].one[s] = NONE \/ t[e].one[s] \in Live(t)
    /\ \A i \in DOMAIN t[e].dims : t[e].dims[i].f = NONE \/ t[e].dims[i].f \in Live(t)
    /\ \A s \in LinkSlots(t[e].kind) : \A x \in Range(t[e].kids[s]) :
          t[x].kind = LinkTargetKind(s) /\ BlockOf(t, x) = BlockOf(t, e)
    /\ \A s \in OneSlots(t[e].kind) : (t[e].one[s] # NONE) =>
          /\ t[t[e].one[s]].kind = OneTargetKind(s)
          /\ (BlockScoped(s) => BlockOf(t, t[e].one[s]) = BlockOf(t, e))
NoDanglingInv == NoDangling(tree) /\ NoDangling(disk)

\* C04: a delete removes exactly the subtree; every other entity keeps its record, children and
\* links except the links into the subtree
DeleteFrame ==
  [][last'.a = "Delete" /\ last'.res = "ok" =>
       LET D == Sub(tree, last'.args.t) IN
       /\ Live(tree') = Live(tree) \ D
       /\ \A e \in Live(tree') :
            /\ tree'[e].name = tree[e].name /\ tree'[e].type = tree[e].type /\ tree'[e].def = tree[e].def
            /\ tree'[e].attr = tree[e].attr /\ tree'[e].par = tree[e].par
            /\ \A s \in DOMAIN tree[e].kids : tree'[e].kids[s] = Drop(tree[e].kids[s], D)
            /\ \A s \in DOMAIN tree[e].one : tree'[e].one[s] = (IF tree[e].one[s] \in D THEN NONE ELSE tree[e].one[s])]_vars

\* C08: a call that throws leaves no trace
RejectFrame == [][last'.res = "reject" => (tree' = tree /\ disk' = disk /\ retained' = retained)]_vars

\* C09: nothing is ever written through a read-only session
ReadOnlyFrame == [][(open /\ mode = "ro") => disk' = disk]_vars
ReadOnlyRejects == [][(open /\ mode = "ro" /\ last'.a \notin {"Flush", "Close", "Crash", "Open", "DeleteAbsent", "QueryAll"}
                       /\ ~(last'.a = "RemoveLink" /\ last'.res = "ok")) => last'.res = "reject"]_vars

\* C02: a reopen shows exactly what was there at the close
ReopenIdentity == [][(last'.a = "Open" /\ last'.args.n # "ow") => tree' = disk]_vars
CloseSaves == [][(last'.a = "Close" /\ mode = "rw") => disk' = tree]_vars

\* C11: what was flushed survives a kill; unflushed modifications may not
DurableAfterFlush == [][(last'.a = "Crash" /\ ~dirty) => (diskOk' = diskOk /\ disk' = disk)]_vars
FlushSaves == [][(last'.a = "Flush" /\ mode = "rw") => (disk' = tree /\ ~dirty')]_vars

\* ids are allocated once and never reused (C12: id stability is checked by the binding)
EidsFresh == \A e \in Live(tree) : e < nextEid

---------------------------------------------------------------------------
(* Observation: the projection of the state that is compared with the real file after every step. *)
(* Only records, sequences, strings, integers and booleans (so that it round-trips through JSON).  *)

EntObs(t, e) ==
  [eid |-> e, kind |-> t[e].kind, name |-> t[e].name, type |-> t[e].type, def |-> t[e].def, attr |-> t[e].attr, sh |-> t[e].sh,
   kids |-> t[e].kids, one |-> t[e].one, dims |-> t[e].dims]

TreeObs(t) == LET order == SortedSeq(Live(t)) IN [i \in 1..Len(order) |-> EntObs(t, order[i])]

\* (a parametrised operator applied to primed variables: priming a whole operator, Obs', is very slow in TLC)
\* KNOWN DEVIATION of the implementation (known finding C04-zombie): validity of a handle is "HDF5 link
\* count > 0"; a deleted entity that is still linked from another deleted entity which persists (because the
\* client holds a handle to it, or through a chain of such links) keeps reporting valid.  The specification
\* predicts exactly which handles are affected ("pinned"); the property demands "no" for them.
RECURSIVE ZClose(_, _, _)
ZClose(S, z, dead) == LET S2 == S \cup {p[2] : p \in {q \in z : q[1] \in S /\ q[2] \in dead}}
                      IN IF S2 = S THEN S ELSE ZClose(S2, z, dead)
Pinned(t, r, z, d) == LET dead == {e \in Range(r) : e \notin Live(t)}
                          Z == ZClose(dead, z, {q[2] : q \in z} \ Live(t))
                      IN \E q \in z : q[2] = d /\ q[1] \in Z

ObsOf(t, o, m, r, lb, z) ==
  [open |-> o, mode |-> IF o THEN m ELSE "",
   ents |-> IF o THEN TreeObs(t) ELSE <<>>,
   \* handles obtained in this session: valid iff the entity still exists; after close every handle is dead
   handles |-> [i \in 1..Len(r) |-> [eid |-> r[i],
                  valid |-> IF ~o THEN "no" ELSE IF r[i] \in Live(t) THEN "yes" ELSE IF r[i] \in lb THEN "any"
                            ELSE IF Pinned(t, r, z, r[i]) THEN "pinned" ELSE "no"]]]
Obs == ObsOf(tree, open, mode, retained, limbo, zl)

\* what a handle kept by the client could remember from earlier calls: every single-link value that was ever set through it
\* in this session.  Not a state component of the design (a correct handle remembers nothing), but in the churn-focused
\* universes (MaxGen >= 2) histories that differ in it are explored separately, so that each of them reaches the reopen.
SeenOne(h) == {<<h[i].args.p, h[i].args.slot, h[i].args.t>> : i \in {j \in 1..Len(h) : h[j].a = "SetOne" /\ h[j].res = "ok"}}
View == <<tree, disk, diskOk, open, mode, dirty, nextEid, retained, limbo, zl, ended, gen, life, IF MaxGen >= 2 THEN SeenOne(hist) ELSE {}>>
\* every emitted line is self-contained (history + step + expected observation), so a configuration prints
\* only the transitions its property judges
Emit == (/\ last'.a \in EmitActs /\ (EmitRes = "any" \/ last'.res = EmitRes)
         /\ (EmitWhen = "ro" => (mode = "ro" \/ mode' = "ro"))) =>
           EmitJson([m |-> "file", pre |-> hist, step |-> last', post |-> ObsOf(tree', open', mode', retained', limbo', zl')])
=============================================================================
