SPECIFICATION Spec
CONSTANTS
  Rank = 1
  MaxExt = 3
  MaxSteps = 24
  Acts = {"Write", "SetAll", "Append", "Extent", "Cal", "Reopen"}
INVARIANT TypeOK
PROPERTIES SlabFrame ViewFrame GrowReadsZero AppendKeeps RawUnaffected RejectFrame
VIEW View
ACTION_CONSTRAINT Emit
CHECK_DEADLOCK FALSE
