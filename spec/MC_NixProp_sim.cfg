SPECIFICATION Spec
CONSTANTS
  Types = {"Bool", "Int32", "UInt32", "Int64", "UInt64", "Double", "String"}
  MaxSteps = 14
PROPERTIES ReadsLastAssigned CountFollows RejectFrame OthersKeep TypeStable
VIEW View
ACTION_CONSTRAINT Emit
CHECK_DEADLOCK FALSE
