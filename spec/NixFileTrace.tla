---------------------------- MODULE NixFileTrace ----------------------------
(***************************************************************************)
(* Direction B for the core specification: validates an execution of the   *)
(* real library recorded by the random driver (harness handler "drive")    *)
(* against NixFile.  Each recorded event carries the abstract call, its     *)
(* outcome class and the complete projected state after the call; an event  *)
(* is accepted iff the corresponding NixFile action - with the logged       *)
(* arguments - is enabled, decides the same outcome and yields the same     *)
(* state.  The trace specification reuses NixFile's actions unchanged.      *)
(***************************************************************************)
EXTENDS NixFile, IOUtils

VARIABLE l
TraceLog == ndJsonDeserialize(IOEnv.TRACE)
tvars == <<vars, l>>

TInit == Init /\ l = 1

TAction(ev) ==
  LET g == ev.args IN
  CASE ev.a = "Create"     -> Create(g.p, g.slot, g.n, g.t, g.v)
    [] ev.a = "Delete"     -> Delete(g.p, g.slot, g.t, g.by)
    [] ev.a = "AddLink"    -> AddLink(g.p, g.slot, g.t, g.by)
    [] ev.a = "RemoveLink" -> RemoveLink(g.p, g.slot, g.t, g.by)
    [] ev.a = "SetLinks"   -> SetLinks(g.p, g.slot, ev.out)
    [] ev.a = "SetOne"     -> SetOne(g.p, g.slot, g.t)
    [] ev.a = "SetAttr"    -> SetAttr(g.p, g.v)
    [] ev.a = "SetType"    -> SetType(g.p, g.n)
    [] ev.a = "SetDef"     -> SetDef(g.p, g.v)
    [] ev.a = "AppendDim"  -> AppendDim(g.p, g.slot, g.t)
    [] ev.a = "DeleteDims" -> DeleteDims(g.p)
    [] ev.a = "Flush"      -> Flush
    [] ev.a = "Close"      -> Close
    [] ev.a = "Open"       -> Open(g.n)

TStep ==
  /\ l <= Len(TraceLog)
  /\ LET ev == TraceLog[l] IN
     /\ TAction(ev)
     /\ last'.res = ev.res                                   \* same accept / reject decision
     /\ last'.new = ev.new                                   \* same entity id for a created entity
     /\ open' = ev.obs.open
     /\ (open' => mode' = ev.obs.mode)
     /\ (open' => TreeObs(tree') = ev.obs.ents)             \* same successor state, completely
     /\ ev.obs.issues = <<>>                                 \* the look-up paths of the real file agreed with each other
  /\ l' = l + 1

TSpec == TInit /\ [][TStep]_tvars
\* violated exactly when the whole trace was consumed ("violation" = accepted)
NotAccepted == l <= Len(TraceLog)
=============================================================================
