SPECIFICATION Spec
CONSTANTS
  Names = {"n1"}
  MaxCreates = 4
  Slots = {"blocks", "arrays", "tags", "sources"}
  LinkSlotsOn = {"refs", "esources"}
  OneSlotsOn = {"metadata"}
  Acts = {"Create", "Delete", "Link", "One", "Close", "Open"}
  MaxLife = 2
  MaxDims = 0
  MaxSteps = 0
  MaxGen = 1
  EmitActs = {"Delete"}
  EmitRes = "any"
  EmitWhen = "always"
INVARIANTS TypeOK NamesUniqueInv OrderInv NoDanglingInv EidsFresh SearchEqualsBruteForce BreadthFirst BackRefsEqualBruteForce
PROPERTIES DeleteFrame RejectFrame ReadOnlyFrame ReadOnlyRejects ReopenIdentity CloseSaves DurableAfterFlush FlushSaves
VIEW View
ACTION_CONSTRAINT Emit
CHECK_DEADLOCK FALSE
