------------------------------ MODULE NixProp ------------------------------
(***************************************************************************)
(* One metadata Property (C14; rejected assignments also C08): element     *)
(* type, ordered value sequence, unit, uncertainty, definition.            *)
(* Values are abstract codes 1..3; the harness maps them, per type, to      *)
(* extremes / NaN / inf / empty / long / UTF-8 values and stretches the     *)
(* sequence lengths 0..3 to 0, 1, 2, 7, 8, 9, 64 elements.                  *)
(***************************************************************************)
EXTENDS NixCommon
CONSTANTS Types, MaxSteps
VARIABLES dtype, how, vals, unit, unc, def, steps, last, hist
vars == <<dtype, how, vals, unit, unc, def, steps, last, hist>>

Codes == {1, 2, 3}
Seqs == {<<>>} \cup {<<a>> : a \in Codes} \cup {<<a, b>> : a \in Codes, b \in Codes} \cup {<<1, 2, 3>>, <<3, 3, 1>>}
Call(a, v, res) == [a |-> a, v |-> v, res |-> res]
Step(c) == last' = c /\ hist' = Append(hist, c) /\ steps' = steps + 1
Room == steps < MaxSteps
Keep == UNCHANGED <<dtype, how>>

\* `bad` = position (1-based) of a value of ANOTHER type inside the vector (0 = none); 10 + p = every value from position p
\* on has the other type: such a vector is rejected as a whole
Assign(s, bad) ==
  LET v == [s |-> s, bad |-> bad, x |-> 0] IN
  /\ Room /\ (bad \in 0..Len(s) \/ (bad > 10 /\ bad - 10 \in 2..Len(s))) /\ Keep
  /\ IF bad > 0 THEN UNCHANGED <<vals, unit, unc, def>> /\ Step(Call("Assign", v, "reject"))
     ELSE vals' = s /\ UNCHANGED <<unit, unc, def>> /\ Step(Call("Assign", v, "ok"))
Clear == /\ Room /\ Keep /\ vals' = <<>> /\ UNCHANGED <<unit, unc, def>> /\ Step(Call("Clear", [s |-> <<>>, bad |-> 0, x |-> 0], "ok"))
SetUnit(u) == /\ Room /\ Keep /\ unit' = u /\ UNCHANGED <<vals, unc, def>> /\ Step(Call("SetUnit", [s |-> <<>>, bad |-> 0, x |-> u], "ok"))
SetUnc(u) == /\ Room /\ Keep /\ unc' = u /\ UNCHANGED <<vals, unit, def>> /\ Step(Call("SetUnc", [s |-> <<>>, bad |-> 0, x |-> u], "ok"))
\* an empty definition string is refused
SetDef(d) == /\ Room /\ Keep
             /\ IF d = -1 THEN UNCHANGED <<vals, unit, unc, def>> /\ Step(Call("SetDef", [s |-> <<>>, bad |-> 0, x |-> d], "reject"))
                ELSE def' = d /\ UNCHANGED <<vals, unit, unc>> /\ Step(Call("SetDef", [s |-> <<>>, bad |-> 0, x |-> d], "ok"))
Reopen == /\ Room /\ Keep /\ UNCHANGED <<vals, unit, unc, def>> /\ Step(Call("Reopen", [s |-> <<>>, bad |-> 0, x |-> 0], "ok"))

\* creation through the three createProperty overloads: by type only (values unspecified until the first
\* assignment: modelled as "unknown"), with one value, with a value vector
Init == /\ dtype \in Types /\ how \in {"dtype", "value", "values"}
        /\ vals = (IF how = "dtype" THEN <<0>> ELSE IF how = "value" THEN <<2>> ELSE <<1, 3>>)
        /\ unit = 0 /\ unc = 0 /\ def = 0 /\ steps = 0
        /\ last = Call("Init", [s |-> <<>>, bad |-> 0, x |-> 0], "ok") /\ hist = <<>>
Next == \/ \E s \in Seqs, bad \in (0..3) \cup {12, 13} : Assign(s, bad)
        \/ Clear
        \/ \E u \in {0, 1, 2} : SetUnit(u)
        \/ \E u \in {0, 1, 2} : SetUnc(u)
        \/ \E d \in {0, 1, -1} : SetDef(d)
        \/ Reopen
Spec == Init /\ [][Next]_vars

ReadsLastAssigned == [][(last'.a = "Assign" /\ last'.res = "ok") => vals' = last'.v.s]_vars
CountFollows == [][(last'.a = "Assign" /\ last'.res = "ok") => Len(vals') = Len(last'.v.s)]_vars
RejectFrame == [][last'.res = "reject" => UNCHANGED <<vals, unit, unc, def, dtype>>]_vars
OthersKeep == [][last'.a \in {"SetUnit", "SetUnc", "SetDef", "Reopen"} => vals' = vals]_vars
TypeStable == [][dtype' = dtype]_vars

\* vals = <<0>> stands for "never assigned": the observation does not speak about the values then
ObsOf(t, hw, v, u, c, d) == [dtype |-> t, how |-> hw, vals |-> v, known |-> (v # <<0>>), unit |-> u, unc |-> c, def |-> d]
View == <<dtype, how, vals, unit, unc, def, steps>>
Emit == EmitJson([m |-> "prop", pre |-> hist, step |-> last', post |-> ObsOf(dtype', how', vals', unit', unc', def')])
=============================================================================
