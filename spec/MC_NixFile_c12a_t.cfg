SPECIFICATION Spec
CONSTANTS
  Names = {"n1"}
  MaxCreates = 7
  Slots = {"blocks", "arrays", "tags", "mtags", "features"}
  LinkSlotsOn = {}
  OneSlotsOn = {}
  Acts = {"Create", "Close", "Open"}
  MaxLife = 2
  MaxDims = 0
  MaxSteps = 8
  MaxGen = 0
  EmitActs = {"Create", "Open"}
  EmitRes = "any"
  EmitWhen = "always"
INVARIANTS TypeOK NamesUniqueInv OrderInv NoDanglingInv EidsFresh SearchEqualsBruteForce BreadthFirst BackRefsEqualBruteForce
PROPERTIES DeleteFrame RejectFrame ReadOnlyFrame ReadOnlyRejects ReopenIdentity CloseSaves DurableAfterFlush FlushSaves
VIEW View
ACTION_CONSTRAINT Emit
CHECK_DEADLOCK FALSE
