---------------------------- MODULE MC_NixRetrieval ----------------------------
(* Finite case sets for NixRetrieval (constants only choose which sets are enumerated). *)
EXTENDS NixRetrieval

CONSTANTS MaxN

Dim(k, n, d) == [k |-> k, n |-> n, d |-> d]
Case(t, dims, P, E, Z, ext, m, lt, rows, idx) ==
  [t |-> t, dims |-> dims, P |-> P, E |-> E, Z |-> Z, ext |-> ext, m |-> m, lt |-> lt, rows |-> rows, idx |-> idx]

Dims1 == {Dim(k, n, d) : k \in Kinds, n \in 1..MaxN, d \in 1..(MaxN + 1)}
LegalDim(x) == x.d <= x.n + 1

\* every single-entry request on a dimension with n coordinates: <<s, e, zero, ext>>
Req1(n) == {<<s, s, TRUE, "absent">> : s \in 0..(2 * n)}
           \cup {<<s, s, TRUE, "present">> : s \in 0..(2 * n)}
           \cup {<<s, e, FALSE, "present">> : s \in 0..(2 * n), e \in 0..(2 * n)}
\* two different doubles with the same code exist only between coordinates
LegalReq(r) == (r[1] = r[2] /\ ~r[3]) => r[1] % 2 = 0

\* (B) combinations: a menu of dimensions and, per dimension, a menu of request classes
DimMenu == {Dim("sampled", 3, 3), Dim("range", 3, 2), Dim("setL", 2, 3), Dim("set0", 2, 2), Dim("frame", 3, 3)}
\* inside, between..between, point on coordinate, point in gap, empty gap (error), whole axis, start > end (error), point above (error for bounded)
ReqMenu(n) == {<<1, 3, FALSE>>, <<2, 4, FALSE>>, <<3, 3, TRUE>>, <<2, 2, TRUE>>, <<2, 2, FALSE>>, <<0, 2 * n, FALSE>>, <<3, 1, FALSE>>, <<2 * n, 2 * n, TRUE>>}
ReqMenuSmall(n) == {<<1, 3, FALSE>>, <<2, 2, TRUE>>, <<2, 2, FALSE>>, <<0, 2 * n, FALSE>>}

Triples == {<<Dim("sampled", 3, 3), Dim("range", 3, 2), Dim("setL", 2, 3)>>, <<Dim("frame", 3, 3), Dim("set0", 2, 2), Dim("sampled", 3, 3)>>,
            <<Dim("range", 3, 2), Dim("range", 3, 2), Dim("frame", 3, 3)>>}
\* features of a tag: every link type, feature array = one or two dimensions
LinkTypes == {"tagged", "untagged", "indexed"}
\* multi-tags: rows from a small menu; every index list of length <= 2 (N = index beyond the positions) and the full list
Row(ra) == [P |-> <<ra[1]>>, E |-> <<ra[2]>>, Z |-> <<ra[3]>>]
Row2(ra, rb) == [P |-> <<ra[1], rb[1]>>, E |-> <<ra[2], rb[2]>>, Z |-> <<ra[3], rb[3]>>]
RowMenu(n) == {<<1, 3, FALSE>>, <<2, 2, TRUE>>, <<3, 3, TRUE>>, <<0, 2 * n, FALSE>>, <<2, 2, FALSE>>}
IdxLists(N) == {<<i>> : i \in 0..N} \cup {<<i, j>> : i \in 0..N, j \in 0..N} \cup {[q \in 1..N |-> q - 1]}
\* Initial-state predicates per tier, written as existential formulas so that TLC enumerates the cases by
\* nested iteration (building and normalising the union sets above as one value is an order of magnitude slower)
IsCase(x) == c = x /\ done = FALSE
Dims1L == {y \in Dims1 : LegalDim(y)}
InitTag1 ==
  \/ \E x \in Dims1L, m \in Modes : \E r \in {q \in Req1(x.n) : LegalReq(q)} :
        IsCase(Case("tag", <<x>>, <<r[1]>>, <<r[2]>>, <<r[3]>>, r[4], m, "", <<>>, <<>>))
  \/ \E x \in Dims1L, m \in Modes :
        \/ IsCase(Case("tag", <<x>>, <<>>, <<>>, <<>>, "absent", m, "", <<>>, <<>>))
        \/ IsCase(Case("tag", <<x>>, <<1, 1>>, <<2, 1>>, <<FALSE, TRUE>>, "present", m, "", <<>>, <<>>))
        \/ IsCase(Case("tag", <<x>>, <<1, 0>>, <<1, 0>>, <<TRUE, TRUE>>, "absent", m, "", <<>>, <<>>))
Tag2(a, b, m, ext, t, lt) ==
  \/ \E ra \in ReqMenu(a.n), rb \in ReqMenu(b.n) :
        IsCase(Case(t, <<a, b>>, <<ra[1], rb[1]>>, <<ra[2], rb[2]>>, <<ra[3], rb[3]>>, ext, m, lt, <<>>, <<>>))
  \/ lt = "" /\ \E ra \in ReqMenu(a.n) : IsCase(Case(t, <<a, b>>, <<ra[1]>>, <<ra[2]>>, <<ra[3]>>, ext, m, lt, <<>>, <<>>))
  \/ lt = "" /\ IsCase(Case(t, <<a, b>>, <<>>, <<>>, <<>>, ext, m, lt, <<>>, <<>>))
  \/ lt = "" /\ ext = "present" /\ \E ra \in ReqMenuSmall(a.n), rb \in ReqMenuSmall(b.n) :
        IsCase(Case(t, <<a, b>>, <<ra[1], rb[1], 1>>, <<ra[2], rb[2], 1>>, <<ra[3], rb[3], TRUE>>, ext, m, lt, <<>>, <<>>))
Tag3(tr, m, ext, t) ==
  \/ \E ra \in ReqMenuSmall(tr[1].n), rb \in ReqMenuSmall(tr[2].n), rc \in ReqMenuSmall(tr[3].n) :
        IsCase(Case(t, tr, <<ra[1], rb[1], rc[1]>>, <<ra[2], rb[2], rc[2]>>, <<ra[3], rb[3], rc[3]>>, ext, m, "", <<>>, <<>>))
  \/ ext = "present" /\ \E ra \in ReqMenuSmall(tr[1].n), rb \in ReqMenuSmall(tr[2].n) :
        IsCase(Case(t, tr, <<ra[1], rb[1]>>, <<ra[2], rb[2]>>, <<ra[3], rb[3]>>, ext, m, "", <<>>, <<>>))
  \/ ext = "present" /\ \E ra \in ReqMenuSmall(tr[1].n) : IsCase(Case(t, tr, <<ra[1]>>, <<ra[2]>>, <<ra[3]>>, ext, m, "", <<>>, <<>>))
InitTagN ==
  \/ \E a \in DimMenu, b \in DimMenu, m \in Modes, ext \in {"present", "absent"} : Tag2(a, b, m, ext, "tag", "")
  \/ \E tr \in Triples, m \in Modes, ext \in {"present", "absent"} : Tag3(tr, m, ext, "tag")
  \/ \E a \in DimMenu, b \in DimMenu, m \in Modes, ext \in {"present", "absent"}, lt \in LinkTypes : Tag2(a, b, m, ext, "ftag", lt)
InitSlice ==
  \/ \E x \in Dims1L, m \in Modes : \E r \in {q \in Req1(x.n) : LegalReq(q) /\ q[4] = "present"} :
        IsCase(Case("slice", <<x>>, <<r[1]>>, <<r[2]>>, <<r[3]>>, "present", m, "", <<>>, <<>>))
  \/ \E x \in Dims1L, m \in Modes :
        \/ IsCase(Case("slice", <<x>>, <<>>, <<>>, <<>>, "present", m, "", <<>>, <<>>))
        \/ IsCase(Case("slice", <<x>>, <<1, 1>>, <<2, 1>>, <<FALSE, TRUE>>, "present", m, "", <<>>, <<>>))
  \/ \E a \in DimMenu, b \in DimMenu, m \in Modes : Tag2(a, b, m, "present", "slice", "")
  \/ \E tr \in Triples, m \in Modes : Tag3(tr, m, "present", "slice")
InitMulti ==
  \/ \E x \in {Dim("sampled", 3, 3), Dim("range", 3, 3), Dim("setL", 3, 2)}, ext \in {"present", "absent"}, m \in Modes, lt \in LinkTypes \cup {""} :
        \E rows \in {<<Row(a)>> : a \in RowMenu(x.n)} \cup {<<Row(a), Row(b)>> : a \in RowMenu(x.n), b \in RowMenu(x.n)} :
          \E idx \in IdxLists(Len(rows)) :
            /\ (lt # "" => Len(idx) = 1)
            /\ IsCase(Case(IF lt = "" THEN "mtag" ELSE "fmtag", <<x>>, <<>>, <<>>, <<>>, ext, m, lt, rows, idx))
  \/ \E a \in {Dim("sampled", 3, 3), Dim("range", 3, 2)}, b \in {Dim("setL", 2, 3), Dim("sampled", 3, 3)}, ext \in {"present", "absent"}, m \in Modes, lt \in LinkTypes \cup {""} :
        \/ \E r1 \in ReqMenuSmall(a.n), r2 \in ReqMenuSmall(b.n), r3 \in {<<1, 3, FALSE>>, <<2, 2, FALSE>>}, r4 \in {<<2, 2, TRUE>>, <<0, 4, FALSE>>},
               idx \in {<<0>>, <<1>>, <<2>>, <<0, 1>>, <<1, 0>>} :
              /\ (lt # "" => Len(idx) = 1)
              /\ IsCase(Case(IF lt = "" THEN "mtag" ELSE "fmtag", <<a, b>>, <<>>, <<>>, <<>>, ext, m, lt, <<Row2(r1, r2), Row2(r3, r4)>>, idx))
        \/ \E r1 \in ReqMenuSmall(a.n), r3 \in {<<1, 3, FALSE>>, <<2, 2, TRUE>>}, idx \in {<<0>>, <<1>>, <<0, 1>>} :
              /\ (lt # "" => Len(idx) = 1)
              /\ IsCase(Case(IF lt = "" THEN "mtag" ELSE "fmtag", <<a, b>>, <<>>, <<>>, <<>>, ext, m, lt, <<Row(r1), Row(r3)>>, idx))
SpecTag1 == InitTag1 /\ [][Eval]_vars
SpecTagN == InitTagN /\ [][Eval]_vars
SpecSlice == InitSlice /\ [][Eval]_vars
SpecMulti == InitMulti /\ [][Eval]_vars
=============================================================================
