SPECIFICATION Spec
CONSTANTS
  MaxBreaches = 0
  MaxSteps = 4
  Acts = {"Inject", "Repair", "Reopen"}
INVARIANTS Sound SoftNeverError Complete SoftWarns
PROPERTIES HistoryFree RepairRestores
VIEW View
ACTION_CONSTRAINT Emit
CHECK_DEADLOCK FALSE
