SPECIFICATION Spec
CONSTANTS
  MaxDims = 1
  MaxSteps = 3
  Acts = {"Alias", "Set", "Arr"}
  ArrRank = 1
  Numeric = FALSE
INVARIANTS TicksSorted IntervalPositive UnitsSI AliasAlone AliasMirrors
PROPERTIES DeleteAllLeavesNone RejectFrame AppendFrameProp
VIEW View
ACTION_CONSTRAINT Emit
CHECK_DEADLOCK FALSE
