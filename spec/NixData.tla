------------------------------ MODULE NixData ------------------------------
(***************************************************************************)
(* The data of one DataArray (C01) and DataView windows onto it (C17):     *)
(* an n-dimensional extent, one value per index, optional calibration      *)
(* (polynomial coefficients, expansion origin).  Actions: hyperslab write, *)
(* whole-array set (extent + write), append along an axis, set extent      *)
(* (grow reads as zero, shrink drops), calibration setters, close+reopen,  *)
(* and reads / writes through a DataView window with view-relative         *)
(* offsets.  Values are abstract codes: 0 is the fill value, a write at    *)
(* step k stores Stamp(k, index) so that every element of every write is   *)
(* distinguishable from what it overwrote; the harness maps codes to       *)
(* values of every element type.                                           *)
(***************************************************************************)
EXTENDS NixCommon

CONSTANTS Rank,       \* rank of the array
          MaxExt,     \* maximal extent per axis
          MaxSteps,   \* history length bound
          Acts        \* enabled action classes

VARIABLES ext,     \* Seq(Nat) of length Rank
          cells,   \* [index tuple -> value code]
          poly,    \* polynomial coefficients (sequence of small integers, <<>> = none)
          origin,  \* expansion origin (small integer) or NONE
          steps, last, hist

vars == <<ext, cells, poly, origin, steps, last, hist>>

Axes == 1..Rank
\* all index tuples of an extent
RECURSIVE Tuples(_, _)
Tuples(e, j) == IF j > Len(e) THEN {<<>>} ELSE {<<i>> \o t : i \in 0..(e[j] - 1), t \in Tuples(e, j + 1)}
Indices(e) == Tuples(e, 1)

Stamp(k, idx) == 10 * k + ((idx[1] + (IF Rank >= 2 THEN 3 * idx[2] ELSE 0) + (IF Rank >= 3 THEN 5 * idx[3] ELSE 0)) % 10)

InSlab(idx, off, cnt) == \A j \in Axes : off[j] <= idx[j] /\ idx[j] < off[j] + cnt[j]
SlabFits(off, cnt, e) == \A j \in Axes : cnt[j] >= 1 /\ off[j] + cnt[j] <= e[j]

Call(a, args, res) == [a |-> a, args |-> args, res |-> res]
Step(c) == last' = c /\ hist' = Append(hist, c) /\ steps' = steps + 1
NoArg == [off |-> <<>>, cnt |-> <<>>, e |-> <<>>, axis |-> 0, n |-> 0, p |-> <<>>, o |-> 0, woff |-> <<>>, wcnt |-> <<>>]
Reject(a, args) == UNCHANGED <<ext, cells, poly, origin>> /\ Step(Call(a, args, "reject"))

\* resize: surviving indices keep their value, new ones read as zero
Resized(e2) == [idx \in Indices(e2) |-> IF idx \in DOMAIN cells THEN cells[idx] ELSE 0]

WriteSlab(off, cnt) ==
  LET args == [NoArg EXCEPT !.off = off, !.cnt = cnt] IN
  /\ steps < MaxSteps
  /\ IF ~SlabFits(off, cnt, ext) THEN Reject("WriteSlab", args)
     ELSE /\ cells' = [idx \in DOMAIN cells |-> IF InSlab(idx, off, cnt) THEN Stamp(steps + 1, idx) ELSE cells[idx]]
          /\ UNCHANGED <<ext, poly, origin>> /\ Step(Call("WriteSlab", args, "ok"))

\* setData(value): the extent becomes the shape of the value, all elements are written
SetAll(e) ==
  /\ steps < MaxSteps
  /\ ext' = e /\ cells' = [idx \in Indices(e) |-> Stamp(steps + 1, idx)]
  /\ UNCHANGED <<poly, origin>> /\ Step(Call("SetAll", [NoArg EXCEPT !.e = e], "ok"))

\* appendData: grow along axis by n and write the new block at the old end
AppendData(axis, n) ==
  LET e2 == [ext EXCEPT ![axis] = @ + n]
      off == [j \in Axes |-> IF j = axis THEN ext[axis] ELSE 0]
      cnt == [j \in Axes |-> IF j = axis THEN n ELSE ext[j]] IN
  /\ steps < MaxSteps /\ e2[axis] <= MaxExt
  /\ ext' = e2
  /\ cells' = [idx \in Indices(e2) |-> IF InSlab(idx, off, cnt) THEN Stamp(steps + 1, idx) ELSE cells[idx]]
  /\ UNCHANGED <<poly, origin>> /\ Step(Call("Append", [NoArg EXCEPT !.axis = axis, !.n = n], "ok"))

\* a block whose other dimensions do not match the array is refused and nothing changes
\* kind "plus1": one other dimension is larger by one; kind "perm" (rank >= 3): the other dimensions are permuted,
\* so the block has the right number of elements but the wrong shape
Others(axis) == Axes \ {axis}
AppendBad(axis, kind) ==
  /\ steps < MaxSteps /\ Rank >= 2
  /\ (kind = "perm" => Rank >= 3 /\ \E j1, j2 \in Others(axis) : ext[j1] # ext[j2])
  /\ Reject("AppendBad", [NoArg EXCEPT !.axis = axis, !.n = IF kind = "perm" THEN 2 ELSE 1])

SetExtent(e) ==
  /\ steps < MaxSteps /\ e # ext
  /\ ext' = e /\ cells' = Resized(e)
  /\ UNCHANGED <<poly, origin>> /\ Step(Call("SetExtent", [NoArg EXCEPT !.e = e], "ok"))

SetPoly(p) == /\ steps < MaxSteps /\ poly' = p /\ UNCHANGED <<ext, cells, origin>>
              /\ Step(Call("SetPoly", [NoArg EXCEPT !.p = p], "ok"))
SetOrigin(o) == /\ steps < MaxSteps /\ origin' = o /\ UNCHANGED <<ext, cells, poly>>
                /\ Step(Call("SetOrigin", [NoArg EXCEPT !.o = o], "ok"))

Reopen == /\ steps < MaxSteps /\ UNCHANGED <<ext, cells, poly, origin>> /\ Step(Call("Reopen", NoArg, "ok"))

\* DataView window [woff, woff+wcnt): creation fails if the window is not inside the array; requests are
\* view-relative; a request that extends past the window is refused without transferring data
ViewOk(woff, wcnt) == SlabFits(woff, wcnt, ext)
InWindow(off, cnt, wcnt) == \A j \in Axes : cnt[j] >= 1 /\ off[j] + cnt[j] <= wcnt[j]
ViewWrite(woff, wcnt, off, cnt) ==
  LET args == [NoArg EXCEPT !.woff = woff, !.wcnt = wcnt, !.off = off, !.cnt = cnt]
      aoff == [j \in Axes |-> woff[j] + off[j]] IN
  /\ steps < MaxSteps
  /\ IF ~ViewOk(woff, wcnt) \/ ~InWindow(off, cnt, wcnt) THEN Reject("ViewWrite", args)
     ELSE /\ cells' = [idx \in DOMAIN cells |-> IF InSlab(idx, aoff, cnt) THEN Stamp(steps + 1, idx) ELSE cells[idx]]
          /\ UNCHANGED <<ext, poly, origin>> /\ Step(Call("ViewWrite", args, "ok"))
\* a read through a view: no state change; the harness compares the elements with the window of `cells`
ViewRead(woff, wcnt, off, cnt) ==
  LET args == [NoArg EXCEPT !.woff = woff, !.wcnt = wcnt, !.off = off, !.cnt = cnt] IN
  /\ steps < MaxSteps /\ UNCHANGED <<ext, cells, poly, origin>>
  /\ Step(Call("ViewRead", args, IF ViewOk(woff, wcnt) /\ InWindow(off, cnt, wcnt) THEN "ok" ELSE "reject"))

Exts == {e \in [Axes -> 1..MaxExt] : TRUE}
Offs == [Axes -> 0..MaxExt]
Cnts == [Axes -> 1..(MaxExt + 1)]
\* requests: inside, touching the edge, crossing the edge by one
Requests(e) == {oc \in Offs \X Cnts : \A j \in Axes : oc[1][j] + oc[2][j] <= e[j] + 1 /\ oc[1][j] <= e[j]}

Init == /\ ext = [j \in Axes |-> 1] /\ cells = [idx \in Indices([j \in Axes |-> 1]) |-> 0]
        /\ poly = <<>> /\ origin = NONE /\ steps = 0
        /\ last = Call("Init", NoArg, "ok") /\ hist = <<>>

Next ==
  \/ "Write" \in Acts /\ \E oc \in Requests(ext) : WriteSlab(oc[1], oc[2])
  \/ "SetAll" \in Acts /\ \E e \in Exts : SetAll(e)
  \/ "Append" \in Acts /\ \E a \in Axes, n \in 1..2 : AppendData(a, n)
  \/ "Append" \in Acts /\ \E a \in Axes, kind \in {"plus1", "perm"} : AppendBad(a, kind)
  \/ "Extent" \in Acts /\ \E e \in Exts : SetExtent(e)
  \/ "Cal" \in Acts /\ \E p \in {<<>>, <<1, 2>>, <<0, 1, 1>>} : SetPoly(p)
  \/ "Cal" \in Acts /\ \E o \in {NONE, 2} : SetOrigin(o)
  \/ "Reopen" \in Acts /\ Reopen
  \/ "View" \in Acts /\ \E w \in {x \in Requests(ext) : SlabFits(x[1], x[2], ext) \/ x[1] = [j \in Axes |-> 0]} :
         \E r \in Requests(w[2]) : ViewWrite(w[1], w[2], r[1], r[2]) \/ ViewRead(w[1], w[2], r[1], r[2])

Spec == Init /\ [][Next]_vars

---------------------------------------------------------------------------
TypeOK == DOMAIN cells = Indices(ext) /\ \A j \in Axes : ext[j] \in 1..MaxExt

\* a write changes exactly the slab
SlabFrame == [][(last'.a \in {"WriteSlab", "ViewWrite"} /\ last'.res = "ok") =>
                 LET off == IF last'.a = "WriteSlab" THEN last'.args.off ELSE [j \in Axes |-> last'.args.woff[j] + last'.args.off[j]]
                 IN \A idx \in DOMAIN cells : ~InSlab(idx, off, last'.args.cnt) => cells'[idx] = cells[idx]]_vars
\* a DataView never touches an element outside its window
ViewFrame == [][last'.a = "ViewWrite" => \A idx \in DOMAIN cells : ~InSlab(idx, last'.args.woff, last'.args.wcnt) => cells'[idx] = cells[idx]]_vars
\* elements exposed by growing read as zero, survivors keep their value
GrowReadsZero == [][last'.a = "SetExtent" => \A idx \in DOMAIN cells' : cells'[idx] = (IF idx \in DOMAIN cells THEN cells[idx] ELSE 0)]_vars
\* append = grow + write at the old end; everything that was there is untouched
AppendKeeps == [][last'.a = "Append" => \A idx \in DOMAIN cells : cells'[idx] = cells[idx]]_vars
\* calibration and reopen never touch the stored values
RawUnaffected == [][last'.a \in {"SetPoly", "SetOrigin", "Reopen", "ViewRead"} => (cells' = cells /\ ext' = ext)]_vars
RejectFrame == [][last'.res = "reject" => UNCHANGED <<ext, cells, poly, origin>>]_vars

---------------------------------------------------------------------------
\* row-major content
RECURSIVE RowMajor(_, _, _)
RowMajor(e, j, prefix) == IF j > Len(e) THEN <<prefix>>
                          ELSE LET F[i \in 0..e[j]] == IF i = e[j] THEN <<>> ELSE RowMajor(e, j + 1, prefix \o <<i>>) \o F[i + 1] IN F[0]
ObsOf(e, c, p, o) == [ext |-> e, content |-> LET order == RowMajor(e, 1, <<>>) IN [i \in 1..Len(order) |-> c[order[i]]],
                      poly |-> p, origin |-> o]
View == <<ext, cells, poly, origin, steps>>
Emit == EmitJson([m |-> "data", pre |-> hist, step |-> last', post |-> ObsOf(ext', cells', poly', origin')])
=============================================================================
