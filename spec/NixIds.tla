------------------------------- MODULE NixIds -------------------------------
(***************************************************************************)
(* Id generation across processes (C12).  Every process seeds a generator  *)
(* when it starts and then draws ids from it; an id is the pair            *)
(* <<seed, counter>>.  The design decision under test is the seed source:  *)
(*   "time"    - the wall-clock second at start (the pinned code)           *)
(*   "entropy" - a value no other process ever gets (system entropy)        *)
(* Actions: Tick (the clock advances), Start(p), CreateId(p), Exit(p) with  *)
(* restart allowed.  IdsUnique: no id is ever issued twice.                 *)
(***************************************************************************)
EXTENDS NixCommon
CONSTANTS Procs, MaxClock, MaxIds, MaxStarts, SeedSource
VARIABLES clock, running, seed, ctr, issued, fresh, dup
vars == <<clock, running, seed, ctr, issued, fresh, dup>>

Init == /\ clock = 0 /\ running = {} /\ seed = [p \in Procs |-> 0] /\ ctr = [p \in Procs |-> 0]
        /\ issued = {} /\ fresh = 1000 /\ dup = FALSE
Tick == /\ clock < MaxClock /\ clock' = clock + 1 /\ UNCHANGED <<running, seed, ctr, issued, fresh, dup>>
Start(p) == /\ p \notin running /\ fresh < 1000 + MaxStarts /\ running' = running \cup {p}
            /\ seed' = [seed EXCEPT ![p] = IF SeedSource = "time" THEN clock ELSE fresh]
            /\ fresh' = fresh + 1 /\ ctr' = [ctr EXCEPT ![p] = 0]
            /\ UNCHANGED <<clock, issued, dup>>
CreateId(p) == /\ p \in running /\ Cardinality(issued) < MaxIds
               /\ LET id == <<seed[p], ctr[p]>> IN
                  /\ dup' = (dup \/ id \in issued) /\ issued' = issued \cup {id}
               /\ ctr' = [ctr EXCEPT ![p] = @ + 1]
               /\ UNCHANGED <<clock, running, seed, fresh>>
Exit(p) == /\ p \in running /\ running' = running \ {p} /\ UNCHANGED <<clock, seed, ctr, issued, fresh, dup>>
Next == Tick \/ \E p \in Procs : Start(p) \/ CreateId(p) \/ Exit(p)
Spec == Init /\ [][Next]_vars
IdsUnique == ~dup
=============================================================================
