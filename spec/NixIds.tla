------------------------------- MODULE NixIds -------------------------------
(***************************************************************************)
(* Id generation across processes and threads (C12).  An execution context  *)
(* (a process, a forked child, a thread) draws ids from a generator; an id   *)
(* is the pair <<seed, counter>> of the generator state it was drawn from.  *)
(* The design decision under test is where the randomness comes from:       *)
(*   "time"         - one generator per process, seeded with the wall-clock *)
(*                    second at start (the pinned code)                     *)
(*   "entropy_once" - one generator per process, seeded once from the       *)
(*                    system entropy source                                 *)
(*   "per_thread"   - as entropy_once, but every thread gets its own        *)
(*                    generator started from the process's seed             *)
(*   "entropy"      - every id is drawn from the entropy source (the code    *)
(*                    after the fix: boost random_generator_pure)           *)
(* Actions: Tick (the clock advances), Start(p), Fork(p, q) (q continues    *)
(* with a COPY of p's memory, generator state included), Thread(p, q)       *)
(* (q runs inside p's process), CreateId(p), Exit(p) with restart allowed.  *)
(* IdsUnique: no id is ever issued twice.  It holds for "entropy" only:     *)
(* "time" collides for two starts within a second, "entropy_once" after a   *)
(* fork, "per_thread" between the threads of a process.                     *)
(***************************************************************************)
EXTENDS Integers, FiniteSets
CONSTANTS
  \* @type: Set(Str);
  Procs,
  \* @type: Int;
  MaxClock,
  \* @type: Int;
  MaxIds,
  \* @type: Int;
  MaxStarts,
  \* @type: Str;
  SeedSource,
  \* @type: Set(Str);
  Acts
VARIABLES
  \* @type: Int;
  clock,
  \* @type: Set(Str);
  running,
  \* @type: Str -> Int;
  gen,      \* context -> generator it draws from (0 = none)
  \* @type: Int -> Int;
  seed,     \* generator -> state
  \* @type: Int -> Int;
  ctr,
  \* @type: Int;
  ngen,     \* generators allocated so far
  \* @type: Set(<<Int, Int>>);
  issued,
  \* @type: Int;
  fresh,
  \* @type: Bool;
  dup
vars == <<clock, running, gen, seed, ctr, ngen, issued, fresh, dup>>
Gens == 1..(MaxStarts + 1)

Init == /\ clock = 0 /\ running = {} /\ gen = [p \in Procs |-> 0]
        /\ seed = [g \in Gens |-> 0] /\ ctr = [g \in Gens |-> 0] /\ ngen = 0
        /\ issued = {} /\ fresh = 1000 /\ dup = FALSE
Tick == /\ clock < MaxClock /\ clock' = clock + 1 /\ UNCHANGED <<running, gen, seed, ctr, ngen, issued, fresh, dup>>
NewGen(p, s, c) == /\ ngen < MaxStarts /\ ngen' = ngen + 1 /\ gen' = [gen EXCEPT ![p] = ngen + 1]
                   /\ seed' = [seed EXCEPT ![ngen + 1] = s] /\ ctr' = [ctr EXCEPT ![ngen + 1] = c]
Start(p) == /\ p \notin running /\ running' = running \cup {p}
            /\ NewGen(p, IF SeedSource = "time" THEN clock ELSE fresh, 0)
            /\ fresh' = fresh + 1
            /\ UNCHANGED <<clock, issued, dup>>
\* the child's memory is a copy of the parent's: same seed, same position in the sequence
Fork(p, q) == /\ "Fork" \in Acts /\ p \in running /\ q \notin running /\ running' = running \cup {q}
              /\ NewGen(q, seed[gen[p]], ctr[gen[p]])
              /\ UNCHANGED <<clock, issued, fresh, dup>>
\* a thread shares the process's generator, except in the per_thread design (own generator, started from the process's seed)
Thread(p, q) == /\ "Thread" \in Acts /\ p \in running /\ q \notin running /\ running' = running \cup {q}
                /\ IF SeedSource = "per_thread" THEN NewGen(q, seed[gen[p]], 0)
                   ELSE gen' = [gen EXCEPT ![q] = gen[p]] /\ UNCHANGED <<seed, ctr, ngen>>
                /\ UNCHANGED <<clock, issued, fresh, dup>>
CreateId(p) == /\ p \in running /\ Cardinality(issued) < MaxIds
               /\ LET \* @type: <<Int, Int>>;
                      id == IF SeedSource = "entropy" THEN <<fresh, 0>> ELSE <<seed[gen[p]], ctr[gen[p]]>> IN
                  /\ dup' = (dup \/ id \in issued) /\ issued' = issued \cup {id}
               /\ fresh' = IF SeedSource = "entropy" THEN fresh + 1 ELSE fresh
               /\ ctr' = [ctr EXCEPT ![gen[p]] = @ + 1]
               /\ UNCHANGED <<clock, running, gen, seed, ngen>>
Exit(p) == /\ p \in running /\ running' = running \ {p} /\ UNCHANGED <<clock, gen, seed, ctr, ngen, issued, fresh, dup>>
Next == \/ Tick
        \/ \E p \in Procs : Start(p) \/ CreateId(p) \/ Exit(p)
        \/ \E p, q \in Procs : Fork(p, q) \/ Thread(p, q)
Spec == Init /\ [][Next]_vars
IdsUnique == ~dup

=============================================================================
