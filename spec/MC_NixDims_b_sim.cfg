SPECIFICATION Spec
CONSTANTS
  MaxDims = 1
  MaxSteps = 24
  Acts = {"Alias", "Range", "Delete", "Setters", "Arr", "Reopen"}
  ArrRank = 1
  Numeric = TRUE
INVARIANTS TicksSorted IntervalPositive UnitsSI AliasAlone AliasMirrors
PROPERTIES DeleteAllLeavesNone RejectFrame AppendFrameProp
VIEW View
ACTION_CONSTRAINT Emit
CHECK_DEADLOCK FALSE
