------------------------------ MODULE NixUnits ------------------------------
(***************************************************************************)
(* SI unit algebra of nix::util (C18): a unit is prefix . base . power.    *)
(* Text form, unambiguous splitting, scalability, scaling exponent         *)
(*    ScaleExp(a, b) = power(a) * (exp(prefix a) - exp(prefix b))          *)
(* so that the factor from a to b is 10^ScaleExp(a, b).                    *)
(***************************************************************************)
EXTENDS NixCommon

PrefixExp == [none |-> 0, y |-> -24, z |-> -21, a |-> -18, f |-> -15, p |-> -12, n |-> -9, u |-> -6, m |-> -3, c |-> -2, d |-> -1,
              da |-> 1, h |-> 2, k |-> 3, M |-> 6, G |-> 9, T |-> 12, P |-> 15, E |-> 18, Z |-> 21, Y |-> 24]
Prefixes == DOMAIN PrefixExp
Bases == {"m", "g", "s", "A", "K", "mol", "cd", "Hz", "N", "Pa", "J", "W", "C", "V", "F", "S", "Wb", "T", "H", "lm", "lx", "Bq", "Gy", "Sv",
          "kat", "l", "L", "Ohm", "%", "dB", "rad"}
Powers == {0, 1, 2, 3, -1, -2, -3}          \* 0 = no power given (means 1)

PrefixText(p) == IF p = "none" THEN "" ELSE p
PowerText(w) == CASE w = 0 -> "" [] w = 1 -> "^1" [] w = 2 -> "^2" [] w = 3 -> "^3" [] w = -1 -> "^-1" [] w = -2 -> "^-2" [] w = -3 -> "^-3"
Text(u) == PrefixText(u.p) \o u.b \o PowerText(u.w)
Unit(p, b, w) == [p |-> p, b |-> b, w |-> w]
AllUnits == {Unit(p, b, w) : p \in Prefixes, b \in Bases, w \in Powers}

Pow(u) == IF u.w = 0 THEN 1 ELSE u.w
Scalable(a, b) == a.b = b.b /\ a.w = b.w
ScaleExp(a, b) == Pow(a) * (PrefixExp[a.p] - PrefixExp[b.p])

\* laws of the exponent algebra (all combinations of prefixes and powers)
Reciprocal == \A p, q \in Prefixes, w \in Powers : ScaleExp(Unit(p, "m", w), Unit(q, "m", w)) = -ScaleExp(Unit(q, "m", w), Unit(p, "m", w))
Compose == \A p, q, r \in Prefixes, w \in Powers :
              ScaleExp(Unit(p, "m", w), Unit(q, "m", w)) + ScaleExp(Unit(q, "m", w), Unit(r, "m", w)) = ScaleExp(Unit(p, "m", w), Unit(r, "m", w))
Symmetric == \A a, b \in {Unit(p, bb, w) : p \in {"none", "m", "k"}, bb \in {"m", "mol", "S", "Sv"}, w \in {0, 2, -1}} : Scalable(a, b) <=> Scalable(b, a)
Identity == \A p \in Prefixes, w \in Powers : ScaleExp(Unit(p, "m", w), Unit(p, "m", w)) = 0
\* the text form determines prefix, base and power uniquely (restricted to the units that share a first letter class to keep it finite and quick)
Unambiguous(S) == \A a, b \in S : Text(a) = Text(b) => a = b

---------------------------------------------------------------------------
CONSTANTS Tier
VARIABLES c, done
vars == <<c, done>>
IsCase(x) == c = x /\ done = FALSE
Eval == ~done /\ done' = TRUE /\ c' = c
\* scalable pairs: every pair of prefixes for every base and power
InitPairs == \E p \in Prefixes, q \in Prefixes, b \in Bases, w \in Powers :
               IsCase([t |-> "scale", a |-> Text(Unit(p, b, w)), b |-> Text(Unit(q, b, w)), ap |-> PrefixText(p), ab |-> b, aw |-> PowerText(w),
                       scalable |-> TRUE, exp |-> ScaleExp(Unit(p, b, w), Unit(q, b, w))])
\* not scalable: different base or different power (a sample of prefixes), and non-SI strings
NonSI == {"foo", "mV/s", "mm^0", "Mm^", "xm", "m m", "", "^2", "kk", "molm", "ms^2.5"}
InitReject ==
  \/ \E p \in {"none", "m", "k", "da"}, q \in {"none", "u", "M"}, b1 \in Bases, b2 \in Bases, w \in {0, 2, -1} :
        b1 # b2 /\ IsCase([t |-> "scale", a |-> Text(Unit(p, b1, w)), b |-> Text(Unit(q, b2, w)), ap |-> PrefixText(p), ab |-> b1, aw |-> PowerText(w),
                           scalable |-> FALSE, exp |-> 0])
  \/ \E p \in {"none", "m", "k"}, q \in {"none", "u"}, b \in Bases, w1 \in Powers, w2 \in Powers :
        Pow(Unit(p, b, w1)) # Pow(Unit(q, b, w2)) /\ IsCase([t |-> "scale", a |-> Text(Unit(p, b, w1)), b |-> Text(Unit(q, b, w2)), ap |-> PrefixText(p), ab |-> b,
                           aw |-> PowerText(w1), scalable |-> FALSE, exp |-> 0])
  \/ \E s \in NonSI, b \in {"m", "ms", "kg^2"} :
        IsCase([t |-> "nonsi", a |-> s, b |-> b, ap |-> "", ab |-> "", aw |-> "", scalable |-> FALSE, exp |-> 0])
SpecPairs == InitPairs /\ [][Eval]_vars
SpecReject == InitReject /\ [][Eval]_vars
Emit == EmitJson([m |-> "units", c |-> c])
=============================================================================
