SPECIFICATION TSpec
INVARIANT NotAccepted
CHECK_DEADLOCK FALSE
