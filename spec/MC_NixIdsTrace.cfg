SPECIFICATION TSpec
INVARIANT NotAccepted
VIEW TView
ALIAS TAlias
CHECK_DEADLOCK FALSE
