------------------------------ MODULE NixTime ------------------------------
(***************************************************************************)
(* created_at / updated_at of one entity (every entity kind carries them). *)
(* created_at is written once, at creation, and afterwards only by          *)
(* forceCreatedAt(t); updated_at is stamped with the current time by every  *)
(* attribute setter and by forceUpdatedAt(); setCreatedAt() / setUpdatedAt()*)
(* only fill in a missing stamp, so after creation they change nothing.     *)
(* Nothing else touches the stamps: not reading, not close + reopen.        *)
(*                                                                         *)
(* Abstract values: ca = 0 (the real creation time) or the code k of a      *)
(* forced time (harness: 1 -> 2001-09-09T01:46:40, 2 -> the epoch,          *)
(* 3 -> 2100-01-01); ub = number of the step that last stamped updated_at   *)
(* (0 = creation).  The harness backdates updated_at on disk after creation *)
(* so that every later stamp is visible although the clock has a resolution *)
(* of one second.                                                           *)
(***************************************************************************)
EXTENDS NixCommon
CONSTANTS MaxSteps, Codes
VARIABLES ca, ub, steps, last, hist
vars == <<ca, ub, steps, last, hist>>
Call(a, k) == [a |-> a, k |-> k]
Step(c) == last' = c /\ hist' = Append(hist, c) /\ steps' = steps + 1
Room == steps < MaxSteps

Setter(k)      == Room /\ ub' = steps + 1 /\ ca' = ca /\ Step(Call("Setter", k))          \* k: which attribute (type / definition / kind-specific)
ForceUpdatedAt == Room /\ ub' = steps + 1 /\ ca' = ca /\ Step(Call("ForceUpdatedAt", 0))
SetUpdatedAt   == Room /\ UNCHANGED <<ca, ub>> /\ Step(Call("SetUpdatedAt", 0))
SetCreatedAt   == Room /\ UNCHANGED <<ca, ub>> /\ Step(Call("SetCreatedAt", 0))
ForceCreatedAt(k) == Room /\ ca' = k /\ ub' = ub /\ Step(Call("ForceCreatedAt", k))
\* Named deviation (observed; no listed property covers it): Tag::position(vector) and Tag::extent(vector) write their data
\* without stamping updated_at, unlike every other setter (units, extent(none), type, definition, ...).  k: 1 position, 2 extent.
UnstampedSetter(k) == Room /\ UNCHANGED <<ca, ub>> /\ Step(Call("UnstampedSetter", k))
Getters        == Room /\ UNCHANGED <<ca, ub>> /\ Step(Call("Getters", 0))                \* reads every attribute of the entity
Reopen         == Room /\ UNCHANGED <<ca, ub>> /\ Step(Call("Reopen", 0))

Init == ca = 0 /\ ub = 0 /\ steps = 0 /\ last = Call("Init", 0) /\ hist = <<>>
Next == \/ \E k \in 1..3 : Setter(k)
        \/ ForceUpdatedAt \/ SetUpdatedAt \/ SetCreatedAt
        \/ \E k \in Codes : ForceCreatedAt(k)
        \/ \E k \in 1..2 : UnstampedSetter(k)
        \/ Getters \/ Reopen
Spec == Init /\ [][Next]_vars

CreatedOnlyByForce == [][ca' # ca => last'.a = "ForceCreatedAt"]_vars
UpdatedOnlyByWrite == [][ub' # ub => last'.a \in {"Setter", "ForceUpdatedAt"}]_vars
WriteStamps        == [][last'.a \in {"Setter", "ForceUpdatedAt"} => ub' = steps']_vars
StampsNeverGoBack  == [][ub' >= ub]_vars

View == <<ca, ub, steps>>
Emit == EmitJson([m |-> "time", pre |-> hist, step |-> last', post |-> [ca |-> ca', ub |-> ub']])
=============================================================================
