SPECIFICATION Spec
CONSTANTS
  Names = {"n1"}
  MaxCreates = 5
  Slots = {"blocks", "arrays", "mtags", "groups"}
  LinkSlotsOn = {"gmtags"}
  OneSlotsOn = {}
  Acts = {"Create", "Link", "Links", "Close", "Open"}
  MaxLife = 2
  MaxDims = 0
  MaxSteps = 7
  MaxGen = 0
  EmitActs = {"AddLink", "RemoveLink", "SetLinks", "Open"}
  EmitRes = "any"
  EmitWhen = "always"
INVARIANTS TypeOK NamesUniqueInv OrderInv NoDanglingInv EidsFresh SearchEqualsBruteForce BreadthFirst BackRefsEqualBruteForce
PROPERTIES DeleteFrame RejectFrame ReadOnlyFrame ReadOnlyRejects ReopenIdentity CloseSaves DurableAfterFlush FlushSaves
VIEW View
ACTION_CONSTRAINT Emit
CHECK_DEADLOCK FALSE
