#!/usr/bin/env python3
"""Generates the MC_NixFile_<name>.cfg model-checking configurations (constants only; all definitions are in NixFile.tla)."""
import os
os.chdir(os.path.dirname(os.path.abspath(__file__)))
ALLACTS = ["Create", "CreateBad", "Delete", "DeleteAbsent", "AddLink", "RemoveLink", "SetLinks", "SetOne", "SetAttr", "SetType", "SetDef",
           "AppendDim", "DeleteDims", "Flush", "Close", "Crash", "Open"]
ALLSLOTS = ["blocks", "sections", "arrays", "frames", "tags", "mtags", "groups", "sources", "props", "features"]
ALLLINKS = ["refs", "esources", "garrays", "gframes", "gtags", "gmtags"]
ALLONES = ["metadata", "positions", "extents", "data", "link"]


def S(xs):
    return '{' + ', '.join('"%s"' % x for x in xs) + '}'


PROPS = "DeleteFrame RejectFrame ReadOnlyFrame ReadOnlyRejects ReopenIdentity CloseSaves DurableAfterFlush FlushSaves"


def cfg(name, names, creates, slots, links, ones, acts, life=0, dims=0, steps=0, emit=None, res="any", when="always", gen=0):
    open('MC_NixFile_%s.cfg' % name, 'w').write(f"""SPECIFICATION Spec
CONSTANTS
  Names = {S(names)}
  MaxCreates = {creates}
  Slots = {S(slots)}
  LinkSlotsOn = {S(links)}
  OneSlotsOn = {S(ones)}
  Acts = {S(acts)}
  MaxLife = {life}
  MaxDims = {dims}
  MaxSteps = {steps}
  MaxGen = {gen}
  EmitActs = {S(emit if emit is not None else ALLACTS)}
  EmitRes = "{res}"
  EmitWhen = "{when}"
INVARIANTS TypeOK NamesUniqueInv OrderInv NoDanglingInv EidsFresh SearchEqualsBruteForce BreadthFirst BackRefsEqualBruteForce
PROPERTIES {PROPS}
VIEW View
ACTION_CONSTRAINT Emit
CHECK_DEADLOCK FALSE
""")


N2 = ["n1", "n2"]
N1 = ["n1"]
N3 = ["n1", "n2", "n3"]
CD = ["Create", "Delete", "Close", "Open"]
for tier, k in (("q", 3), ("t", 4)):
    # C03: names / look-ups / order; create, delete, re-create, reopen; containers grouped so that equal names meet
    J3 = ["Create", "Delete", "Open", "AddLink", "RemoveLink"]
    cfg("c03a_" + tier, N2, k, ["blocks", "arrays", "tags", "frames"], [], [], CD, life=2, emit=J3)
    cfg("c03b_" + tier, N2, k, ["sections", "props"], [], [], CD, life=2, emit=J3)
    cfg("c03c_" + tier, N2, k, ["blocks", "sources", "groups", "mtags", "arrays"], [], [], CD, life=2, emit=J3)
    cfg("c03d_" + tier, N1, k, ["blocks", "arrays", "tags", "sources", "groups"], ["refs", "esources", "garrays", "gtags"], [],
        ["Create", "Link", "Close", "Open"], life=2, emit=J3, gen=1)
    cfg("c03f_" + tier, N2, k, ["blocks", "arrays", "tags", "groups"], ["refs", "garrays"], [], ["Create", "Links", "Close", "Open"], life=2, steps=k + 4, emit=["SetLinks", "Open"])
    cfg("c03g_" + tier, N2, k + 1, ["blocks", "arrays", "tags", "groups"], ["refs", "garrays", "gtags"], [], ["Create", "Link", "Close", "Open"], life=2, steps=k + 3, emit=["AddLink", "RemoveLink", "Open"])
    cfg("c03h_" + tier, N2, k + 1, ["blocks", "frames", "groups"], ["gframes"], [], ["Create", "Link", "Links", "Close", "Open"], life=2, steps=k + 3, emit=["AddLink", "RemoveLink", "SetLinks", "Open"])
    cfg("c03i_" + tier, N1, k + 1, ["blocks", "arrays", "mtags", "groups"], ["gmtags"], [], ["Create", "Link", "Links", "Close", "Open"], life=2, steps=k + 3, emit=["AddLink", "RemoveLink", "SetLinks", "Open"])
    cfg("c03e_" + tier, N3, k, ["blocks"], [], [], CD, life=2, emit=J3)
    # members of link containers deleted from their owner and created again under the same name (one name per kind, so every re-creation meets its predecessor)
    cfg("c03j_" + tier, N1, k + 1, ["blocks", "frames", "groups"], ["gframes"], [], ["Create", "Delete", "Link"], steps=k + 4, emit=["Create", "Delete", "AddLink"])
    cfg("c03k_" + tier, N1, k + 2, ["blocks", "arrays", "tags", "groups"], ["garrays", "gtags", "refs"], [], ["Create", "Delete", "Link"], steps=k + 4, emit=["Create", "Delete", "AddLink"])
    # C04: deletion in link graphs (sibling structures need two names)
    J4 = ["Delete"]
    L = ["Create", "Delete", "Link", "One"]
    cfg("c04a_" + tier, N1, k + 2, ["blocks", "arrays", "tags", "mtags", "features"], ["refs"], ["positions", "extents", "data"], L, emit=J4, gen=1)
    cfg("c04b_" + tier, N1, k, ["blocks", "sections", "sources", "arrays", "groups"], ["esources", "garrays"], ["metadata", "link"], L, emit=J4, gen=1)
    cfg("c04c_" + tier, N1, k, ["blocks", "arrays", "frames", "groups", "tags"], ["gframes", "garrays", "gtags", "refs"], [], L + ["Dims"], dims=2, emit=J4, gen=1)
    cfg("c04h_" + tier, N1, k + 1, ["blocks", "arrays", "mtags", "groups"], ["gmtags", "refs"], ["positions"], L, steps=k + 3, emit=J4, gen=1)
    cfg("c04d_" + tier, N2, k + 1, ["blocks", "sources", "arrays"], ["esources"], [], L, steps=k + 3, emit=J4, gen=1)
    cfg("c04e_" + tier, N1, k, ["blocks", "arrays", "tags", "sources"], ["refs", "esources"], ["metadata"], L + ["Close", "Open"], life=2, emit=J4, gen=1)
    cfg("c04f_" + tier, N2, k, ["sections", "props"], [], ["link"], L, steps=k + 2, emit=J4, gen=1)
    cfg("c04g_" + tier, N2, k + 1, ["blocks", "sections", "sources"], [], ["metadata"], L, steps=k + 2, emit=J4, gen=1)
    # C08: every rejected call in every state of the universe
    R = ["Create", "CreateBad", "Delete", "Link", "One", "Foreign", "Type"]
    cfg("c08a_" + tier, N1, k + 1, ["blocks", "arrays", "tags", "mtags", "features"], ["refs"], ["positions", "extents", "data"], R, res="reject")
    cfg("c08b_" + tier, N1, k, ["blocks", "sources", "arrays", "groups", "frames"], ["esources", "garrays", "gframes"], [], R, res="reject")
    cfg("c08d_" + tier, N1, k + 1, ["blocks", "arrays", "tags", "sources", "groups"], ["refs", "esources", "garrays", "gtags"], [], ["Create", "Link", "Links", "Foreign"], steps=k + 3, res="reject")
    # two blocks with equally named arrays / tags: a same-named entity of the OTHER block as link target
    cfg("c08e_" + tier, N2, k + 2, ["blocks", "arrays", "tags"], ["refs"], [], ["Create", "Link", "Links"], steps=k + 4, res="reject", emit=["AddLink", "RemoveLink", "SetLinks"])
    # creation with a target from a sibling block that has a namesake in the holder's block (multi-tag positions, feature data)
    if tier == "q":
        cfg("c08g_q", N2, 4, ["blocks", "arrays", "mtags"], [], [], ["Create", "CreateBad"], steps=5, res="reject", emit=["CreateBad"])
    else:
        cfg("c08g_t", N2, 5, ["blocks", "arrays", "mtags", "tags", "features"], [], [], ["Create", "CreateBad"], steps=6, res="reject", emit=["CreateBad", "Create"])
    cfg("c08f_" + tier, N1, k + 1, ["blocks", "arrays", "mtags", "frames", "groups"], ["gmtags", "gframes"], [], ["Create", "Link", "Links", "Foreign"], steps=k + 3, res="reject")
    cfg("c08c_" + tier, N1, k, ["blocks", "sections", "props", "sources"], [], ["metadata", "link"], R, steps=k + 2, res="reject")
    # C02: reopen identity (every history, close + reopen in either mode; also flush / reopen inside)
    A2 = ["Create", "Delete", "Link", "One", "Attr", "Type", "Def", "Dims", "Flush", "Close", "Open"]
    cfg("c02a_" + tier, N1, k, ["blocks", "arrays", "tags", "sections", "props"], ["refs"], ["metadata"], A2, life=2, dims=1, steps=k + 4, emit=["Open"])
    cfg("c02b_" + tier, N1, k, ["blocks", "arrays", "mtags", "features", "sources", "groups", "frames"], ["esources", "garrays"], ["extents", "data"], A2, life=2, dims=1, steps=k + 4, emit=["Open"])
    # C02 focused: containers emptied and refilled / links replaced, then reopened (longer histories, few kinds)
    LO = ["Close", "Open"]
    cfg("c02c_" + tier, N1, 3, ["blocks", "arrays", "tags"], ["refs"], [], ["Create", "Link"] + LO, life=2, steps=k + 6, emit=["Open"], gen=2)
    cfg("c02d_" + tier, N1, 4, ["blocks", "arrays", "sources", "groups"], ["esources", "garrays"], [], ["Create", "Link"] + LO, life=2, steps=k + 6, emit=["Open"], gen=2)
    cfg("c02e_" + tier, N1, 3, ["blocks", "sections", "props"], [], ["metadata", "link"], ["Create", "Delete", "One"] + LO, life=2, steps=k + 5, emit=["Open"], gen=2)
    cfg("c02f_" + tier, N1, 3, ["blocks", "arrays", "frames"], [], [], ["Create", "Delete", "Dims"] + LO, life=2, dims=2, steps=k + 5, emit=["Open"], gen=2)
    cfg("c02h_" + tier, N1, 4, ["blocks", "groups", "frames", "tags"], ["gframes", "gtags"], [], ["Create", "Link"] + LO, life=2, steps=k + 5, emit=["Open"], gen=1)
    cfg("c02i_" + tier, N1, 4, ["blocks", "arrays", "mtags", "groups"], ["gmtags", "refs"], [], ["Create", "Link"] + LO, life=2, steps=k + 5, emit=["Open"], gen=1)
    cfg("c02g_" + tier, N1, 4, ["blocks", "arrays", "tags", "features"], [], ["data"], ["Create", "Delete", "One"] + LO, life=2, steps=k + 5, emit=["Open"], gen=2)
    # C09: every mutator in a read-only session
    A9 = ["Create", "CreateBad", "Delete", "Link", "One", "Attr", "Type", "Def", "Dims", "Close", "Open", "Flush"]
    E9 = [a for a in ALLACTS if a != "Crash"]
    cfg("c09a_" + tier, N1, k, ["blocks", "arrays", "tags", "sections", "props", "sources"], ["refs", "esources"], ["metadata", "link"], A9, life=2, dims=1, steps=k + 4, emit=E9, when="ro")
    cfg("c09b_" + tier, N1, k + 1, ["blocks", "arrays", "mtags", "features", "groups", "frames"], ["garrays", "gframes"], ["positions", "extents", "data"], A9, life=2, dims=1, steps=k + 4, emit=E9, when="ro")
    cfg("c09c_" + tier, N1, k + 1, ["blocks", "arrays", "tags", "mtags", "groups"], ["gtags", "gmtags"], [], A9, life=2, steps=k + 4, emit=E9, when="ro")
    # C11: flush / close / crash / reopen
    A11 = ["Create", "Delete", "Link", "Attr", "Flush", "Close", "Crash", "Open", "OpenOw"]
    cfg("c11a_" + tier, N1, k, ["blocks", "arrays", "tags", "sections", "props"], ["refs"], [], A11, life=4, steps=k + 4, emit=["Open", "Close", "Crash"])
    cfg("c11b_" + tier, N1, k, ["blocks", "frames", "groups", "sources", "arrays"], ["esources", "garrays", "gframes"], [], A11, life=4, steps=k + 4, emit=["Open", "Close", "Crash"])
    cfg("c11c_" + tier, N1, k + 1, ["blocks", "arrays", "mtags", "features", "sections"], ["gmtags"], ["metadata", "extents", "data", "link"], ["Create", "One", "Flush", "Close", "Crash", "Open"], life=3, steps=k + 4, emit=["Open", "Close", "Crash"])
    # C12: ids never change: several features of one tag / multi-tag on the same array, with equal and different link types
    cfg("c12a_" + tier, N1, k + 3, ["blocks", "arrays", "tags", "mtags", "features"], [], [], ["Create", "Close", "Open"], life=2, steps=k + 4, emit=["Create", "Open"])
    # C20: searches and back references as one QueryAll self-loop per reachable state (after arbitrary deletions)
    cfg("c20a_" + tier, N2, k + 1, ["sections", "props"], [], ["link"], ["Create", "Delete", "One", "Type", "Query"], steps=k + 3, emit=["QueryAll"])
    cfg("c20d_" + tier, N2, k + 2, ["sections"], [], [], ["Create", "Delete", "Query"], steps=k + 3, emit=["QueryAll"])
    cfg("c20b_" + tier, N2, k + 2, ["blocks", "sources"], [], [], ["Create", "Delete", "Type", "Query"], steps=k + 4, emit=["QueryAll"])
    cfg("c20c_" + tier, N1, k + 2, ["blocks", "sections", "sources", "arrays", "tags", "mtags"], ["esources"], ["metadata"], ["Create", "Link", "One", "Delete", "Query"], steps=k + 4, emit=["QueryAll"])
# the whole vocabulary, for simulation
cfg("all", N2, 9, ALLSLOTS, ALLLINKS, ALLONES,
    ["Create", "CreateBad", "Delete", "DeleteAbsent", "Link", "Links", "One", "Foreign", "Attr", "Type", "Def", "Dims", "Flush", "Close", "Open"], life=3, dims=2)
cfg("all_life", N2, 9, ALLSLOTS, ALLLINKS, ALLONES,
    ["Create", "Delete", "Link", "One", "Attr", "Type", "Def", "Dims", "Flush", "Close", "Open", "Crash", "OpenOw"], life=6, dims=2)
