---- MODULE MC_NixUnits ----
EXTENDS NixUnits
ASSUME Reciprocal /\ Compose /\ Symmetric /\ Identity
ASSUME Unambiguous({Unit(p, b, w) : p \in Prefixes, b \in Bases, w \in {0, 2}})
====
