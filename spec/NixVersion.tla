---------------------------- MODULE NixVersion ----------------------------
(***************************************************************************)
(* Header / format-version gate and open modes of a NIX file (C09, C10).   *)
(*                                                                         *)
(* State: what is on disk (header and a content proxy = number of blocks)  *)
(* and the session (open?, writable?).  Actions: the environment tampers   *)
(* with the header (HDF5 C API in the harness), File::open in the three     *)
(* modes with / without Force, createBlock, close.                         *)
(* One action per public call; outcome class in `last.res`.                *)
(***************************************************************************)
EXTENDS NixCommon, NixVersionOrder

CONSTANTS Lib,          \* <<x, y, z>> format version of the library
          Versions,     \* set of triples a file may carry
          Defects,      \* header defects the environment may inject
          MaxBlocks,
          MaxOpens      \* bound on the number of opens per history

VARIABLES disk, sess, tampered, opens, last, hist
vars == <<disk, sess, tampered, opens, last, hist>>

---------------------------------------------------------------------------
Fresh == [exists |-> TRUE, kind |-> "nix", fmt |-> "nix", hasVer |-> TRUE,
          ver |-> Lib, hasId |-> TRUE, blocks |-> 0]
Absent == [Fresh EXCEPT !.exists = FALSE]

HeaderOk(d) == d.kind = "nix" /\ d.fmt = "nix" /\ d.hasVer
               /\ (VLe(<<1, 2, 0>>, d.ver) => d.hasId)

\* decision of File::open; "create" = a new empty file is written
OpenOutcome(d, mode, force) ==
  IF ~d.exists THEN (IF mode = "ro" THEN "reject" ELSE "create")
  ELSE IF mode = "ow" THEN "create"
  ELSE IF d.kind = "nothdf5" THEN "reject"
  ELSE IF force THEN "open"
  ELSE IF ~(d.kind = "nix" /\ d.fmt = "nix" /\ d.hasVer) THEN "reject"
  ELSE IF mode = "rw" /\ ~CanWrite(Lib, d.ver) THEN "reject"
  ELSE IF mode = "ro" /\ ~CanRead(Lib, d.ver) THEN "reject"
  ELSE IF VLe(<<1, 2, 0>>, d.ver) /\ ~d.hasId THEN "reject"
  ELSE "open"

Record(a, args, res) == /\ last' = [a |-> a, args |-> args, res |-> res]
                        /\ hist' = Append(hist, [a |-> a, args |-> args, res |-> res])

Init == /\ disk = Fresh /\ sess = [open |-> FALSE, writable |-> FALSE]
        /\ tampered = FALSE /\ opens = 0
        /\ last = [a |-> "Init", args |-> [x |-> 0], res |-> "ok"] /\ hist = <<>>

\* environment: rewrite the version attribute of the closed file
EnvSetVersion(v) ==
  /\ ~sess.open /\ ~tampered /\ disk.exists /\ disk.kind = "nix"
  /\ disk' = [disk EXCEPT !.ver = v] /\ tampered' = TRUE
  /\ UNCHANGED <<sess, opens>>
  /\ Record("EnvSetVersion", [x |-> v[1], y |-> v[2], z |-> v[3]], "ok")

\* environment: inject a header defect / replace the file
EnvDefect(d) ==
  /\ ~sess.open /\ ~tampered /\ disk.exists
  /\ disk' = CASE d = "no_format"   -> [disk EXCEPT !.fmt = "missing"]
               [] d = "bad_format"  -> [disk EXCEPT !.fmt = "wrong"]
               [] d = "no_version"  -> [disk EXCEPT !.hasVer = FALSE]
               [] d = "no_id"       -> [disk EXCEPT !.hasId = FALSE]
               [] d = "plain_hdf5"  -> [disk EXCEPT !.kind = "plainhdf5", !.fmt = "missing",
                                                    !.hasVer = FALSE, !.hasId = FALSE, !.blocks = 0]
               [] d = "not_hdf5"    -> [disk EXCEPT !.kind = "nothdf5", !.fmt = "missing",
                                                    !.hasVer = FALSE, !.hasId = FALSE, !.blocks = 0]
               [] d = "absent"      -> Absent
  /\ tampered' = TRUE /\ UNCHANGED <<sess, opens>>
  /\ Record("EnvDefect", [d |-> d], "ok")

Open(mode, force) ==
  /\ ~sess.open /\ opens < MaxOpens
  \* Force is modelled for version mismatches only (C10); with a broken header its effect is unspecified
  /\ force => HeaderOk([disk EXCEPT !.ver = Lib]) /\ disk.exists
  /\ opens' = opens + 1
  /\ LET o == OpenOutcome(disk, mode, force) IN
     /\ CASE o = "reject" -> UNCHANGED <<disk, sess>>
          [] o = "create" -> disk' = Fresh /\ sess' = [open |-> TRUE, writable |-> TRUE]
          [] o = "open"   -> UNCHANGED disk /\ sess' = [open |-> TRUE, writable |-> (mode # "ro")]
     /\ Record("Open", [mode |-> mode, force |-> force], IF o = "reject" THEN "reject" ELSE "ok")
  /\ UNCHANGED tampered

CreateBlock ==
  /\ sess.open /\ disk.blocks < MaxBlocks
  /\ IF sess.writable
       THEN disk' = [disk EXCEPT !.blocks = @ + 1] /\ Record("CreateBlock", [n |-> disk.blocks + 1], "ok")
       ELSE UNCHANGED disk /\ Record("CreateBlock", [n |-> disk.blocks + 1], "reject")
  /\ UNCHANGED <<sess, tampered, opens>>

Close ==
  /\ sess.open /\ sess' = [open |-> FALSE, writable |-> FALSE]
  /\ UNCHANGED <<disk, tampered, opens>> /\ Record("Close", [x |-> 0], "ok")

Next == \/ \E v \in Versions : EnvSetVersion(v)
        \/ \E d \in Defects : EnvDefect(d)
        \/ \E m \in {"ro", "rw", "ow"}, f \in BOOLEAN : Open(m, f)
        \/ CreateBlock
        \/ Close

Spec == Init /\ [][Next]_vars

---------------------------------------------------------------------------
\* properties of the design
TypeOK == /\ disk.blocks \in 0..MaxBlocks /\ sess.open \in BOOLEAN
          /\ (sess.writable => sess.open)

\* C10: an un-forced open of an existing file succeeds only through the gate
GateRead  == [][(last'.a = "Open" /\ last'.res = "ok" /\ ~last'.args.force /\ last'.args.mode = "ro")
                  => (disk.exists /\ CanRead(Lib, disk.ver) /\ disk.fmt = "nix" /\ disk.hasVer)]_vars
GateWrite == [][(last'.a = "Open" /\ last'.res = "ok" /\ ~last'.args.force /\ last'.args.mode = "rw" /\ disk.exists)
                  => (VEq(Lib, disk.ver) /\ disk.fmt = "nix" /\ disk.hasVer)]_vars
\* and every file that passes the gate is opened (no spurious refusal)
GateComplete == [][(last'.a = "Open" /\ ~last'.args.force /\ HeaderOk(disk) /\ disk.exists
                    /\ (IF last'.args.mode = "ro" THEN CanRead(Lib, disk.ver) ELSE CanWrite(Lib, disk.ver)))
                  => last'.res = "ok"]_vars
ForceBypasses == [][(last'.a = "Open" /\ last'.args.force /\ disk.kind = "nix") => last'.res = "ok"]_vars
\* C09
ReadOnlyFrame    == [][(sess.open /\ ~sess.writable) => disk' = disk]_vars
ROOpenFrame      == [][(last'.a = "Open" /\ last'.args.mode = "ro") => disk' = disk]_vars
RWPreserves      == [][(last'.a = "Open" /\ last'.args.mode = "rw" /\ disk.exists) => disk' = disk]_vars
OverwriteEmpties == [][(last'.a = "Open" /\ last'.args.mode = "ow") =>
                        (last'.res = "ok" /\ disk' = Fresh /\ sess'.writable)]_vars
RefuseWithoutHeader == [][(last'.a = "Open" /\ ~last'.args.force /\ last'.args.mode # "ow" /\ disk.exists
                           /\ ~HeaderOk(disk)) => last'.res = "reject"]_vars
RefuseAbsentRO   == [][(last'.a = "Open" /\ last'.args.mode = "ro" /\ ~disk.exists) => last'.res = "reject"]_vars
RejectFrame      == [][(last'.res = "reject") => (disk' = disk /\ sess' = sess)]_vars

---------------------------------------------------------------------------
\* observation compared with the implementation after every step
Obs == [open   |-> sess.open,
        exists |-> disk.exists,
        blocks |-> IF disk.exists /\ disk.kind = "nix" THEN disk.blocks ELSE NONE,
        \* header as seen through the HDF5 C API (only judged when the file is a NIX container)
        fmt    |-> disk.fmt, hasVer |-> disk.hasVer, hasId |-> disk.hasId,
        vx |-> disk.ver[1], vy |-> disk.ver[2], vz |-> disk.ver[3],
        kind |-> disk.kind]

View == <<disk, sess, tampered, opens>>
Emit == EmitJson([m |-> "version", pre |-> hist, step |-> last', post |-> Obs'])
=============================================================================
