SPECIFICATION Spec
CONSTANTS
  Names = {"n1", "n2"}
  MaxCreates = 5
  Slots = {"blocks", "arrays", "tags"}
  LinkSlotsOn = {"refs"}
  OneSlotsOn = {}
  Acts = {"Create", "Link", "Links"}
  MaxLife = 0
  MaxDims = 0
  MaxSteps = 7
  MaxGen = 0
  EmitActs = {"AddLink", "RemoveLink", "SetLinks"}
  EmitRes = "reject"
  EmitWhen = "always"
INVARIANTS TypeOK NamesUniqueInv OrderInv NoDanglingInv EidsFresh SearchEqualsBruteForce BreadthFirst BackRefsEqualBruteForce
PROPERTIES DeleteFrame RejectFrame ReadOnlyFrame ReadOnlyRejects ReopenIdentity CloseSaves DurableAfterFlush FlushSaves
VIEW View
ACTION_CONSTRAINT Emit
CHECK_DEADLOCK FALSE
