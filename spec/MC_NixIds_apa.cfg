CONSTANTS
  Procs = {"p1", "p2", "p3"}
  MaxClock = 1000000
  MaxIds = 1000000
  MaxStarts = 6
  SeedSource = "entropy"
  Acts = {"Fork", "Thread"}
INIT Init
NEXT Next
