SPECIFICATION Spec
ACTION_CONSTRAINT Emit
CHECK_DEADLOCK FALSE
