SPECIFICATION Spec
CONSTANTS
  Names = {"n1"}
  MaxCreates = 4
  Slots = {"blocks", "arrays", "tags", "sections", "props"}
  LinkSlotsOn = {"refs"}
  OneSlotsOn = {"metadata"}
  Acts = {"Create", "Delete", "Link", "One", "Attr", "Type", "Def", "Dims", "Flush", "Close", "Open"}
  MaxLife = 2
  MaxDims = 1
  MaxSteps = 8
  MaxGen = 0
  EmitActs = {"Open"}
  EmitRes = "any"
  EmitWhen = "always"
INVARIANTS TypeOK NamesUniqueInv OrderInv NoDanglingInv EidsFresh SearchEqualsBruteForce BreadthFirst BackRefsEqualBruteForce
PROPERTIES DeleteFrame RejectFrame ReadOnlyFrame ReadOnlyRejects ReopenIdentity CloseSaves DurableAfterFlush FlushSaves
VIEW View
ACTION_CONSTRAINT Emit
CHECK_DEADLOCK FALSE
