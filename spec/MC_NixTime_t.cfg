SPECIFICATION Spec
CONSTANTS
  MaxSteps = 6
  Codes = {1, 2, 3}
PROPERTIES CreatedOnlyByForce UpdatedOnlyByWrite WriteStamps StampsNeverGoBack
VIEW View
ACTION_CONSTRAINT Emit
CHECK_DEADLOCK FALSE
