SPECIFICATION CSpec
CONSTANTS
  Versions <- AllVersions
ACTION_CONSTRAINT CEmit
CHECK_DEADLOCK FALSE
