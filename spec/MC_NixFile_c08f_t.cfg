SPECIFICATION Spec
CONSTANTS
  Names = {"n1"}
  MaxCreates = 5
  Slots = {"blocks", "arrays", "mtags", "frames", "groups"}
  LinkSlotsOn = {"gmtags", "gframes"}
  OneSlotsOn = {}
  Acts = {"Create", "Link", "Links", "Foreign"}
  MaxLife = 0
  MaxDims = 0
  MaxSteps = 7
  MaxGen = 0
  EmitActs = {"Create", "CreateBad", "Delete", "DeleteAbsent", "AddLink", "RemoveLink", "SetLinks", "SetOne", "SetAttr", "SetType", "SetDef", "AppendDim", "DeleteDims", "Flush", "Close", "Crash", "Open"}
  EmitRes = "reject"
  EmitWhen = "always"
INVARIANTS TypeOK NamesUniqueInv OrderInv NoDanglingInv EidsFresh SearchEqualsBruteForce BreadthFirst BackRefsEqualBruteForce
PROPERTIES DeleteFrame RejectFrame ReadOnlyFrame ReadOnlyRejects ReopenIdentity CloseSaves DurableAfterFlush FlushSaves
VIEW View
ACTION_CONSTRAINT Emit
CHECK_DEADLOCK FALSE
