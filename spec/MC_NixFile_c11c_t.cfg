SPECIFICATION Spec
CONSTANTS
  Names = {"n1"}
  MaxCreates = 5
  Slots = {"blocks", "arrays", "mtags", "features", "sections"}
  LinkSlotsOn = {"gmtags"}
  OneSlotsOn = {"metadata", "extents", "data", "link"}
  Acts = {"Create", "One", "Flush", "Close", "Crash", "Open"}
  MaxLife = 3
  MaxDims = 0
  MaxSteps = 8
  MaxGen = 0
  EmitActs = {"Open", "Close", "Crash"}
  EmitRes = "any"
  EmitWhen = "always"
INVARIANTS TypeOK NamesUniqueInv OrderInv NoDanglingInv EidsFresh SearchEqualsBruteForce BreadthFirst BackRefsEqualBruteForce
PROPERTIES DeleteFrame RejectFrame ReadOnlyFrame ReadOnlyRejects ReopenIdentity CloseSaves DurableAfterFlush FlushSaves
VIEW View
ACTION_CONSTRAINT Emit
CHECK_DEADLOCK FALSE
