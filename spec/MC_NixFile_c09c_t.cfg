SPECIFICATION Spec
CONSTANTS
  Names = {"n1"}
  MaxCreates = 5
  Slots = {"blocks", "arrays", "tags", "mtags", "groups"}
  LinkSlotsOn = {"gtags", "gmtags"}
  OneSlotsOn = {}
  Acts = {"Create", "CreateBad", "Delete", "Link", "One", "Attr", "Type", "Def", "Dims", "Close", "Open", "Flush"}
  MaxLife = 2
  MaxDims = 0
  MaxSteps = 8
  MaxGen = 0
  EmitActs = {"Create", "CreateBad", "Delete", "DeleteAbsent", "AddLink", "RemoveLink", "SetLinks", "SetOne", "SetAttr", "SetType", "SetDef", "AppendDim", "DeleteDims", "Flush", "Close", "Open"}
  EmitRes = "any"
  EmitWhen = "ro"
INVARIANTS TypeOK NamesUniqueInv OrderInv NoDanglingInv EidsFresh SearchEqualsBruteForce BreadthFirst BackRefsEqualBruteForce
PROPERTIES DeleteFrame RejectFrame ReadOnlyFrame ReadOnlyRejects ReopenIdentity CloseSaves DurableAfterFlush FlushSaves
VIEW View
ACTION_CONSTRAINT Emit
CHECK_DEADLOCK FALSE
