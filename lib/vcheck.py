"""Orchestration shared by all checks: build, TLC (emission / model checking / trace validation),
sharded replay into the real library, verdicts, known findings, evidence.

Exit codes of a check: 0 = property held on everything explored, 1 = VIOLATION line(s) printed,
2 = the machinery itself failed (build, TLC error, spec violation of the *model*, nothing judged)."""
import json, os, re, subprocess, sys, time, hashlib, shutil, threading, uuid, itertools, collections, fcntl
from concurrent.futures import ThreadPoolExecutor, wait, FIRST_COMPLETED

VERIF = '/verif'
BUILD = os.environ.get('VERIF_BUILD') or VERIF + '/.build'      # overridden only by bin/seed-try (scratch worktree of a seeded change)
REPO = os.environ.get('VERIF_REPO') or '/repo'
OUT = os.environ.get('VERIF_OUT') or VERIF     # evidence/ and replays/ live here (bin/seed-try redirects them)
SPEC = VERIF + '/spec'
JAR = '/opt/veriftools/tla/tla2tools.jar:/opt/veriftools/tla/CommunityModules-deps.jar'
NCPU = 16


class MachineryError(Exception):
    pass


def log(*a):
    print('[check]', *a, file=sys.stderr, flush=True)


# --------------------------------------------------------------------------- build
def ensure_build(variant='plain'):
    """(Re)build /repo's current working tree and the harness; incremental."""
    t0 = time.time()
    r = subprocess.run([VERIF + '/bin/build-nix', variant], capture_output=True, text=True)
    if r.returncode != 0:
        raise MachineryError('library build failed (%s):\n%s' % (variant, r.stdout[-3000:] + r.stderr[-3000:]))
    os.makedirs(BUILD, exist_ok=True)
    with open(BUILD + '/.lock-harness-' + variant, 'w') as lk:
        fcntl.flock(lk, fcntl.LOCK_EX)
        r = subprocess.run(['make', '-C', VERIF + '/harness', '-j16', 'V=' + variant, 'B=' + BUILD, 'REPO=' + REPO], capture_output=True, text=True)
    if r.returncode != 0:
        raise MachineryError('harness build failed:\n' + r.stdout[-3000:] + r.stderr[-3000:])
    log('build %s ok in %.1fs' % (variant, time.time() - t0))
    return BUILD + '/nixreplay-' + variant


# --------------------------------------------------------------------------- TLC
class TlcRun:
    """Runs TLC and iterates over the lines emitted through ACTION_CONSTRAINT Emit (JSON string literals)."""

    def __init__(self, module, cfg=None, workers=8, simulate=None, depth=None, seed=None, timeout=1500,
                 env=None, max_lines=None, heap='8g', coverage=True, extra=None, deadlock=False):
        self.module, self.cfg = module, cfg or module + '.cfg'
        self.workers, self.simulate, self.depth, self.seed = workers, simulate, depth, seed
        self.timeout, self.env, self.max_lines, self.heap = timeout, env or {}, max_lines, heap
        self.coverage, self.extra = coverage, extra or []
        self.generated = self.distinct = 0
        self.depth_reached = 0
        self.errors, self.other, self.cov = [], [], {}
        self.truncated = False
        self.lines = 0
        self.rc = None
        self.wall = 0.0

    def cmd(self):
        self.meta = '%s/tlc/%s' % (BUILD, uuid.uuid4().hex[:12])
        os.makedirs(self.meta, exist_ok=True)
        c = ['timeout', str(self.timeout), 'java', '-XX:+UseParallelGC', '-Xmx' + self.heap, '-cp', JAR, 'tlc2.TLC',
             '-workers', str(self.workers), '-metadir', self.meta, '-config', self.cfg, '-noGenerateSpecTE']
        if self.coverage:
            c += ['-coverage', '1']
        if self.simulate:
            c += ['-simulate', 'num=%d' % self.simulate]
            if self.depth:
                c += ['-depth', str(self.depth)]
        if self.seed is not None:
            c += ['-seed', str(self.seed)]
        c += self.extra + [self.module + '.tla']
        return c

    def __iter__(self):
        t0 = time.time()
        env = dict(os.environ)
        env.update(self.env)
        p = subprocess.Popen(self.cmd(), cwd=SPEC, stdout=subprocess.PIPE, stderr=subprocess.STDOUT, text=True,
                             env=env, bufsize=1 << 20)
        self.proc = p
        try:
            for ln in p.stdout:
                if ln.startswith('"'):
                    self.lines += 1
                    if self.max_lines and self.lines > self.max_lines:
                        self.truncated = True
                        p.kill()
                        break
                    try:
                        yield json.loads(json.loads(ln))
                    except Exception as e:
                        self.errors.append('undecodable emitted line: %r (%s)' % (ln[:200], e))
                    continue
                self._parse(ln.rstrip('\n'))
        finally:
            try:
                p.stdout.close()
            except Exception:
                pass
            self.rc = p.wait()
            self.wall = time.time() - t0
            shutil.rmtree(self.meta, ignore_errors=True)

    def run(self):
        for _ in self:
            pass
        return self

    _cov_re = re.compile(r'^<(\w+) line (\d+), col \d+ to line \d+, col \d+ of module (\w+)>: (\d+):(\d+)')

    def _parse(self, ln):
        m = re.search(r'(\d+) states generated, (\d+) distinct states found', ln)
        if m:
            self.generated, self.distinct = int(m.group(1)), int(m.group(2))
        m = re.search(r'depth of the complete state graph search is (\d+)', ln)
        if m:
            self.depth_reached = int(m.group(1))
        m = self._cov_re.match(ln)
        if m:
            k = m.group(1)
            d = self.cov.setdefault(k, [0, 0])
            d[0] += int(m.group(4))
            d[1] += int(m.group(5))
        if ln.startswith('Error:') or 'is violated' in ln or 'was violated' in ln or 'were violated' in ln \
                or 'Parsing or semantic analysis failed' in ln or 'Exception' in ln:
            self.errors.append(ln)
        self.other.append(ln)
        if len(self.other) > 400:
            del self.other[:200]

    def ok(self):
        """TLC finished and found no error in the model itself."""
        if self.truncated:
            return True
        return self.rc == 0 and not self.errors

    def require_ok(self):
        if not self.ok():
            raise MachineryError('TLC failed on %s/%s rc=%s\n%s\n--- tail ---\n%s' % (
                self.module, self.cfg, self.rc, '\n'.join(self.errors[:20]), '\n'.join(self.other[-25:])))

    def require_coverage(self, actions):
        """every named action must have been taken at least once (no vacuous exploration)"""
        missing = [a for a in actions if self.cov.get(a, [0, 0])[0] == 0]
        if missing:
            raise MachineryError('actions never taken in %s: %s (coverage: %s)' % (self.cfg, missing, self.cov))


def tlc_check(module, cfg=None, **kw):
    """plain model checking run (no emission expected); returns the TlcRun"""
    r = TlcRun(module, cfg, **kw).run()
    r.require_ok()
    return r


# --------------------------------------------------------------------------- replay
def _run_chunk(binary, chunk, args, env, timeout_per_line=20):
    """Feed `chunk` (list of (idx, jsonstr)) to one replayer process; restart after crashes.
    Returns list of verdict dicts."""
    out = []
    todo = list(chunk)
    work = '%s/work/%s' % (BUILD, uuid.uuid4().hex[:12])
    os.makedirs(work, exist_ok=True)
    try:
        while todo:
            data = '\n'.join(s for _, s in todo) + '\n'
            try:
                p = subprocess.run([binary, '--work', work] + args, input=data, capture_output=True, text=True,
                                   env=env, timeout=max(60, timeout_per_line * len(todo)))
                rc, so, se = p.returncode, p.stdout, p.stderr
            except subprocess.TimeoutExpired as e:
                rc, so, se = -999, (e.stdout or b'').decode() if isinstance(e.stdout, bytes) else (e.stdout or ''), 'timeout'
            done = 0
            for ln in so.split('\n'):
                if not ln.startswith('{'):
                    continue
                try:
                    v = json.loads(ln)
                except Exception:
                    break
                out.append(v)
                done += 1
            if done >= len(todo):
                break
            # the process died while executing todo[done]
            idx = todo[done][0]
            out.append({'i': idx, 'v': 'crash', 'rc': rc, 'stderr': se[-4000:]})
            todo = todo[done + 1:]
    finally:
        shutil.rmtree(work, ignore_errors=True)
    return out


class Replayer:
    def __init__(self, binary, seed=0, opts=None, jobs=NCPU, chunk=400, env=None, timeout_per_line=20):
        self.binary, self.seed, self.opts, self.jobs, self.chunk = binary, seed, opts or {}, jobs, chunk
        self.env = dict(os.environ)
        self.env.setdefault('ASAN_OPTIONS', 'detect_leaks=0:abort_on_error=1:handle_abort=1')
        self.env.setdefault('UBSAN_OPTIONS', 'print_stacktrace=1:halt_on_error=1')
        self.env['HDF5_USE_FILE_LOCKING'] = 'FALSE'
        if env:
            self.env.update(env)
        self.tpl = timeout_per_line

    def args(self):
        return ['--seed', str(self.seed), '--opts', json.dumps(self.opts)]

    def run(self, records):
        """records: iterable of dicts (each gets an index 'i'); returns (records_by_index, verdicts)"""
        recs = {}
        verdicts = []
        pending = set()
        ex = ThreadPoolExecutor(self.jobs)
        cur = []
        n = 0

        def submit(ch):
            pending.add(ex.submit(_run_chunk, self.binary, ch, self.args(), self.env, self.tpl))

        def drain(block_until):
            nonlocal pending
            while len(pending) > block_until:
                done, pending = wait(pending, return_when=FIRST_COMPLETED)
                for f in done:
                    verdicts.extend(f.result())

        for r in records:
            r['i'] = n
            recs[n] = r
            cur.append((n, json.dumps(r, separators=(',', ':'))))
            n += 1
            if len(cur) >= self.chunk:
                submit(cur)
                cur = []
                drain(self.jobs * 3)
        if cur:
            submit(cur)
        drain(0)
        ex.shutdown()
        return recs, verdicts

    def single(self, rec):
        rec = dict(rec)
        prefix = rec.pop('_prefix', None)
        if prefix:
            # a history-dependent case: the earlier lines of its replayer process are executed first, in the same process
            lines = [(k, json.dumps(dict(r, i=k))) for k, r in enumerate(prefix)]
            rec['i'] = len(prefix)
            lines.append((rec['i'], json.dumps(rec)))
            vs = [v for v in _run_chunk(self.binary, lines, self.args(), self.env, self.tpl) if v.get('i') == rec['i']]
            return vs[-1] if vs else {'i': rec['i'], 'v': 'crash', 'rc': None}
        rec['i'] = 0
        v = _run_chunk(self.binary, [(0, json.dumps(rec))], self.args(), self.env, self.tpl)
        return v[0] if v else {'i': 0, 'v': 'crash', 'rc': None}

    def history_of(self, rec, recs):
        """the lines that the replayer process of `rec` executed before it (its chunk up to rec), or None"""
        i = rec.get('i')
        if i is None or recs is None or i not in recs:
            return None
        start = (i // self.chunk) * self.chunk
        if start == i:
            return None
        out = []
        for k in range(start, i):
            if k in recs:
                r = dict(recs[k]); r.pop('i', None)
                out.append(r)
        return out


# --------------------------------------------------------------------------- known findings
def load_known():
    try:
        return json.load(open(VERIF + '/known_findings.json'))
    except FileNotFoundError:
        return {'findings': [], 'fixed': []}


# --------------------------------------------------------------------------- check driver
class Check:
    """One run of one property's check.  Collects judged cases, violations, evidence."""

    def __init__(self, pid, level='model_checking'):
        self.pid = pid
        self.level = level
        self.tier = os.environ.get('VERIF_TIER', 'quick')
        self.seed = int(os.environ.get('VERIF_SEED', '0') or 0)
        self.t0 = time.time()
        self.states = self.transitions = 0
        self.evaluations = 0
        self.traces_validated = 0
        self.distinct = set()
        self.samples = []
        self.violations = []        # (signature, replay-record)
        self.known_hits = collections.OrderedDict()
        self.unjudgeable = 0
        self.extra = {}
        self.assumptions = []
        self.rule = ''
        self.exhaustive = None
        self.tlc_runs = []
        self.known = [f for f in load_known().get('findings', []) if f.get('property') == pid]
        args = sys.argv[1:]
        self.replay_path = None
        if '--tier' in args:
            self.tier = args[args.index('--tier') + 1]
        if '--replay' in args:
            self.replay_path = args[args.index('--replay') + 1]

    @property
    def thorough(self):
        return self.tier == 'thorough'

    # ---- TLC bookkeeping
    def note_tlc(self, run, name=None):
        self.states += run.distinct
        self.transitions += run.generated
        self.tlc_runs.append({'spec': run.module, 'cfg': run.cfg, 'distinct_states': run.distinct,
                              'states_generated': run.generated, 'emitted_lines': run.lines,
                              'depth': run.depth_reached, 'wall_s': round(run.wall, 1),
                              'simulate': run.simulate, 'truncated': run.truncated,
                              'coverage': {k: v[0] for k, v in sorted(run.cov.items())}})

    # ---- verdict bookkeeping
    def key_of(self, rec):
        return hashlib.sha1(json.dumps(rec, sort_keys=True).encode()).hexdigest()[:16]

    def judged(self, rec, nontrivial=True, n=1):
        self.evaluations += max(1, n)
        if nontrivial:
            r = dict(rec)
            r.pop('i', None)
            self.distinct.add(self.key_of(r))
        if len(self.samples) < 3 or (self.evaluations % 997 == 0 and len(self.samples) < 8):
            r = dict(rec)
            r.pop('i', None)
            self.samples.append(r)

    def match_known(self, rec, verdict):
        """return the known finding whose signature matches this disagreement, or None"""
        for f in self.known:
            sig = f.get('match', {})
            if _sig_match(sig, rec, verdict):
                return f
        return None

    def disagreement(self, rec, verdict, replayer=None, recs=None):
        """a candidate violation: confirm by re-execution in a fresh process, then classify"""
        if replayer is not None and len(self.violations) < 8:
            v2 = replayer.single(rec)
            if v2.get('v') == 'ok':
                # not reproduced alone: the outcome may depend on what the same process executed before (state kept by the
                # library across calls).  Re-execute the case after the same lines, twice; a repeatable disagreement is reported
                # together with that history, anything else is ignored as not reproducible.
                hist = replayer.history_of(rec, recs) if self.extra.get('history_rerun', 0) < 6 else None
                if hist:
                    self.extra['history_rerun'] = self.extra.get('history_rerun', 0) + 1
                    r2 = dict(rec); r2['_prefix'] = hist
                    v3, v4 = replayer.single(r2), replayer.single(r2)
                    if v3.get('v') in ('mismatch', 'crash') and v4.get('v') == v3.get('v'):
                        v3['history_dependent'] = 'passes when executed alone; fails after the %d earlier lines of its replayer process' % len(hist)
                        rec, verdict, v2 = r2, v3, v3
                if v2.get('v') == 'ok':
                    log('candidate on line %s not reproduced on re-execution; ignored (flaky?): %s' % (rec.get('i'), json.dumps(verdict)[:400]))
                    self.extra['not_reproduced'] = self.extra.get('not_reproduced', 0) + 1
                    return
            verdict = v2
        f = self.match_known(rec, verdict)
        if f is not None:
            self.known_hits.setdefault(f['id'], [f, 0])[1] += 1
            return
        self.violations.append((rec, verdict))

    def absorb(self, recs, verdicts, replayer=None, judge=None):
        """standard treatment of replay verdicts"""
        for v in verdicts:
            rec = recs.get(v.get('i'))
            if rec is None:
                continue
            kind = v.get('v')
            for kid in v.get('known', []):
                if kid.split('-')[0] != self.pid:
                    continue        # a recognised deviation that belongs to another property's facet
                f = next((x for x in self.known if x.get('id') == kid), None)
                if f is None:
                    self.violations.append((rec, {'v': 'mismatch', 'what': 'deviation %s predicted by the specification is not a registered known finding' % kid}))
                else:
                    self.known_hits.setdefault(kid, [f, 0])[1] += 1
            if kind == 'ok':
                self.judged(rec, n=v.get('n', 1))
            elif kind == 'unjudgeable':
                self.unjudgeable += 1
            elif kind in ('mismatch', 'crash'):
                self.judged(rec, n=v.get('n', 1))
                self.disagreement(rec, v, replayer, recs)
            else:
                try:
                    json.dump({'line': rec, 'verdict': v}, open(BUILD + '/last_machinery_line.json', 'w'))
                except OSError:
                    pass
                raise MachineryError('replayer verdict %r on line %s' % (v, json.dumps(rec)[:500]))

    # ---- finish
    def finish(self):
        wall = time.time() - self.t0
        os.makedirs(OUT + '/evidence', exist_ok=True)
        os.makedirs(OUT + '/replays', exist_ok=True)
        for fid, (f, n) in self.known_hits.items():
            print('KNOWN-FINDING: property=%s %s (%d case(s) in this run)' % (self.pid, f['what'], n))
        vio_paths = []
        seen = set()
        for rec, verdict in self.violations:
            r = dict(rec)
            r.pop('i', None)
            h = self.key_of(r)
            if h in seen:
                continue
            seen.add(h)
            path = '%s/replays/%s-%s.json' % (OUT, self.pid, h)
            if len(vio_paths) < 5:
                json.dump({'property': self.pid, 'line': r, 'verdict': verdict, 'tier': self.tier, 'seed': self.seed},
                          open(path, 'w'), indent=1)
                print('VIOLATION property=%s replay=%s' % (self.pid, path))
                what = verdict.get('what') or verdict.get('v')
                log('  ->', what, json.dumps(verdict)[:600])
            vio_paths.append(path)
        cov = {'states': max(self.states, 0), 'transitions': max(self.transitions, 0),
               'traces_validated_against_impl': self.traces_validated,
               'evaluations': self.evaluations, 'distinct_nontrivial': len(self.distinct),
               'rule': self.rule, 'samples': self.samples[:8], 'tlc_runs': self.tlc_runs,
               'unjudgeable': self.unjudgeable,
               'known_findings_seen': {k: v[1] for k, v in self.known_hits.items()}}
        if self.exhaustive is not None:
            cov['exhaustive'] = self.exhaustive
        cov.update(self.extra)
        ev = {'property_id': self.pid, 'tier': self.tier if self.tier in ('quick', 'thorough') else 'quick',
              'seed': self.seed, 'level': self.level,
              'coverage': cov, 'assumptions': self.assumptions, 'wall_s': round(wall, 2), 'violations': len(seen)}
        tmp = '%s/evidence/%s.json.tmp' % (OUT, self.pid)
        json.dump(ev, open(tmp, 'w'), indent=1)
        os.replace(tmp, '%s/evidence/%s.json' % (OUT, self.pid))
        log('%s %s: %d evaluations (%d distinct), %d states, %d violations, %d unjudgeable, %.1fs' % (
            self.pid, self.tier, self.evaluations, len(self.distinct), self.states, len(seen), self.unjudgeable, wall))
        if seen:
            return 1
        if self.evaluations == 0:
            log('nothing was judged: machinery failure')
            return 2
        return 0


def _get(d, path):
    for k in path.split('.'):
        if isinstance(d, dict) and k in d:
            d = d[k]
        else:
            return None
    return d


def _sig_match(sig, rec, verdict):
    """signature = dict of dotted paths into {'line': rec, 'verdict': verdict} -> required value
    (a list means 'one of'; a string starting with 're:' is a regex on the string form)"""
    doc = {'line': rec, 'verdict': verdict}
    if not sig:
        return False
    for path, want in sig.items():
        got = _get(doc, path)
        if isinstance(want, str) and want.startswith('re:'):
            if got is None or not re.search(want[3:], got if isinstance(got, str) else json.dumps(got, sort_keys=True)):
                return False
        elif isinstance(want, list):
            if got not in want:
                return False
        elif got != want:
            return False
    return True


def main(fn, pid, level='model_checking'):
    """run a check function `fn(check)`; map exceptions to exit codes"""
    chk = Check(pid, level)
    try:
        if chk.replay_path:
            doc = json.load(open(chk.replay_path))
            fn(chk, replay=doc['line'])
        else:
            fn(chk)
        rc = chk.finish()
    except MachineryError as e:
        log('MACHINERY FAILURE:', e)
        rc = 2
    sys.exit(rc)


# --------------------------------------------------------------------------- Apalache (unbounded laws, extra)
def absorb_sim(chk, rp, module, cfg, num, depth, judge=None, tag=None):
    """long random behaviours of `module` (TLC -simulate): every step of every behaviour is one case (own history)"""
    run = TlcRun(module, cfg, workers=4, simulate=max(1, num // 4), depth=depth, seed=chk.seed + 7, timeout=1500, coverage=False)
    def src():
        for r in run:
            if judge is None or judge(r):
                if tag:
                    r.update(tag)
                yield r
    recs, verdicts = rp.run(src())
    if run.errors:
        raise MachineryError('TLC simulation of %s/%s failed: %s' % (module, cfg, run.errors[:5]))
    if run.lines == 0:
        raise MachineryError('no transition emitted by simulation of %s/%s' % (module, cfg))
    run.generated = run.lines
    chk.note_tlc(run)
    chk.absorb(recs, verdicts, rp)
    chk.exhaustive = False


def apalache_check(module, args, timeout=600):
    """generic Apalache run in /verif/spec; returns 'NoError' / 'Error' / 'unavailable'"""
    out = '%s/apalache/%s' % (BUILD, uuid.uuid4().hex[:10])
    os.makedirs(out, exist_ok=True)
    try:
        p = subprocess.run(['timeout', str(timeout), 'apalache-mc', 'check', '--out-dir=' + out] + list(args) + [module + '.tla'],
                           cwd=SPEC, capture_output=True, text=True)
    except FileNotFoundError:
        return 'unavailable'
    finally:
        shutil.rmtree(out, ignore_errors=True)
    if 'The outcome is: NoError' in p.stdout:
        return 'NoError'
    if 'The outcome is: Error' in p.stdout:
        return 'Error'
    return 'unavailable'


def apalache_laws(module, inv='Laws', timeout=300):
    """checks `inv` over Init (length 0) with Apalache, i.e. for ALL integer values; returns 'NoError' / 'Error' / 'unavailable'"""
    out = '%s/apalache/%s' % (BUILD, uuid.uuid4().hex[:10])
    os.makedirs(out, exist_ok=True)
    try:
        p = subprocess.run(['timeout', str(timeout), 'apalache-mc', 'check', '--length=0', '--inv=' + inv, '--out-dir=' + out, module + '.tla'],
                           cwd=SPEC, capture_output=True, text=True)
    except FileNotFoundError:
        return 'unavailable'
    finally:
        shutil.rmtree(out, ignore_errors=True)
    if 'The outcome is: NoError' in p.stdout:
        return 'NoError'
    if 'The outcome is: Error' in p.stdout:
        return 'Error'
    return 'unavailable'
