// Handler "valid": the validator on a rule-conforming base file with injected breaches (NixValid.tla; C19)
#include "common.hpp"
#include <nix/valid/validate.hpp>

namespace {

void h5WriteTicks(const std::string &path, const std::string &dimPath, const std::vector<double> &t) {
    hid_t f = H5Fopen(path.c_str(), H5F_ACC_RDWR, H5P_DEFAULT);
    hid_t d = H5Dopen2(f, (dimPath + "/ticks").c_str(), H5P_DEFAULT);
    if (d < 0) { H5Fclose(f); throw std::runtime_error("harness: cannot open ticks data set " + dimPath); }
    hsize_t n = t.size(); H5Dset_extent(d, &n);
    herr_t e = H5Dwrite(d, H5T_NATIVE_DOUBLE, H5S_ALL, H5S_ALL, H5P_DEFAULT, t.data());
    H5Dclose(d); H5Fclose(f);
    if (e < 0) throw std::runtime_error("harness: cannot write ticks");
}
void h5WriteInterval(const std::string &path, const std::string &dimPath, double v) {
    hid_t f = H5Fopen(path.c_str(), H5F_ACC_RDWR, H5P_DEFAULT);
    hid_t g = H5Gopen2(f, dimPath.c_str(), H5P_DEFAULT);
    hid_t a = H5Aopen(g, "sampling_interval", H5P_DEFAULT);
    herr_t e = (a < 0) ? -1 : H5Awrite(a, H5T_NATIVE_DOUBLE, &v);
    if (a >= 0) H5Aclose(a); H5Gclose(g); H5Fclose(f);
    if (e < 0) throw std::runtime_error("harness: cannot write sampling_interval");
}
void h5Unlink(const std::string &path, const std::string &grp, const std::string &name) {
    hid_t f = H5Fopen(path.c_str(), H5F_ACC_RDWR, H5P_DEFAULT);
    hid_t g = H5Gopen2(f, grp.c_str(), H5P_DEFAULT);
    herr_t e = (g < 0) ? -1 : H5Ldelete(g, name.c_str(), H5P_DEFAULT);
    if (g >= 0) H5Gclose(g); H5Fclose(f);
    if (e < 0) throw std::runtime_error("harness: cannot unlink " + grp + "/" + name);
}

// One session on the base file; breaches are injected / repaired IN PLACE so that entity ids (and whatever a stateful
// validator may have remembered about them) survive from one validation to the next.
struct Sess {
    std::string path; long seed; nix::File f; std::set<std::string> cur;
    nix::ndsize_t n1, n2 = 4, n3, n4;
    bool on(const char *k) const { return cur.count(k) > 0; }
    void open() { f = nix::File::open(path, nix::FileMode::ReadWrite); }
    void close() { if (f) { f.close(); } f = nix::none; }
    nix::Block b() { return f.getBlock("b"); }
    nix::DataArray arr(const char *n) { return b().getDataArray(n); }

    void build() {
        long v = seed % 3;                       // base-file variation: data lengths
        n1 = 3 + (nix::ndsize_t) v; n3 = 3 + (nix::ndsize_t) (v % 2); n4 = 2 + (nix::ndsize_t) v;
        f = nix::File::open(path, nix::FileMode::Overwrite);
        nix::Block b = f.createBlock("b", "t");
        nix::DataArray a1 = b.createDataArray("a1", "t", nix::DataType::Double, nix::NDSize({n1, n2}));
        a1.appendSampledDimension(0.5, "time", "ms");
        std::vector<double> ticks; for (nix::ndsize_t i = 0; i < n2; i++) ticks.push_back(1.0 + 0.75 * i);
        a1.appendRangeDimension(ticks, "voltage", "mV");
        a1.unit("mV");
        nix::DataArray a2 = b.createDataArray("a2", "t", nix::DataType::Double, nix::NDSize({n3}));
        std::vector<std::string> labels; for (nix::ndsize_t i = 0; i < n3; i++) labels.push_back("l" + std::to_string(i));
        a2.appendSetDimension(labels);
        a2.unit("s");
        nix::DataArray a3 = b.createDataArray("a3", "t", nix::DataType::Double, nix::NDSize({n4}));
        std::vector<nix::Column> cols = {{"c0", "", nix::DataType::Double}};
        nix::DataFrame df = b.createDataFrame("df", "t", cols);
        df.rows(n4);
        a3.appendDataFrameDimension(df, 0u);
        a3.unit("V");
        // arrays with several dimensions of the same kind: a breach in a later dimension must not hide behind an earlier one
        nix::DataArray a4 = b.createDataArray("a4", "t", nix::DataType::Double, nix::NDSize({2, 3}));
        a4.appendSetDimension();
        a4.appendSetDimension(std::vector<std::string>{"m0", "m1", "m2"});
        a4.unit("V");
        nix::DataArray a5 = b.createDataArray("a5", "t", nix::DataType::Double, nix::NDSize({2, 3}));
        a5.appendRangeDimension({0.0, 1.0}, "x", "ms"); a5.appendRangeDimension({0.0, 0.5, 1.0}, "y", "ms");
        a5.unit("V");
        nix::DataArray a6 = b.createDataArray("a6", "t", nix::DataType::Double, nix::NDSize({2, 3}));
        a6.appendSampledDimension(1.0, "t", "ms"); a6.appendSampledDimension(2.0, "v", "mV"); a6.unit("V");
        nix::DataArray a7 = b.createDataArray("a7", "t", nix::DataType::Double, nix::NDSize({3}));
        { std::vector<double> d = {1.0, 2.5, 4.0}; a7.setData(nix::DataType::Double, d.data(), nix::NDSize({3}), nix::NDSize({0})); }
        a7.unit("ms"); a7.label("events"); a7.appendAliasRangeDimension();
        nix::DataArray af1 = b.createDataArray("af1", "t", nix::DataType::Double, nix::NDSize({2})); af1.unit("V"); af1.appendSetDimension();
        nix::DataArray af2 = b.createDataArray("af2", "t", nix::DataType::Double, nix::NDSize({2})); af2.unit("V"); af2.appendSetDimension();
        nix::Tag t = b.createTag("tag", "t", {1.0, 2.0});
        t.extent({0.5, 1.0});
        t.units({"us", "V"});
        t.addReference(a1);
        t.createFeature(af1, nix::LinkType::Untagged);
        nix::Tag t2 = b.createTag("tag2", "t", {1.0, 2.0});
        t2.units({"us", "uV"});
        t2.addReference(a6);
        nix::DataArray p = b.createDataArray("pos", "t", nix::DataType::Double, nix::NDSize({2})); p.unit("s"); p.appendSetDimension();
        nix::MultiTag m = b.createMultiTag("mtag", "t", p);
        m.addReference(a2);
        m.createFeature(af2, nix::LinkType::Indexed);
        nix::Section s = f.createSection("sec", "t");
        nix::Property pr = s.createProperty("prop", nix::Variant(1.0));
        pr.unit("mV");
        b.metadata(s);
    }

    // brings the facet of the file that breach k lives in into the state given by cur
    void sync(const std::string &k) {
        if (k == "nticks" || k == "unsorted" || k == "dupticks") {
            std::vector<double> t; for (nix::ndsize_t i = 0; i < n2 + (on("nticks") ? 1 : 0); i++) t.push_back(1.0 + 0.75 * i);
            if (on("dupticks")) t[2] = t[1];          // ascending, not strictly
            if (on("unsorted")) { std::swap(t[0], t[2]); close(); h5WriteTicks(path, "/data/b/data_arrays/a1/dimensions/2", t); open(); }   // the API refuses it
            else arr("a1").getDimension(2).asRangeDimension().ticks(t);
        } else if (k == "alias_unsorted") {
            std::vector<double> d = on("alias_unsorted") ? std::vector<double>{4.0, 1.0, 2.5} : std::vector<double>{1.0, 2.5, 4.0};
            arr("a7").setData(nix::DataType::Double, d.data(), nix::NDSize({3}), nix::NDSize({0}));
        } else if (k == "unit_nonsi") { arr("a1").unit(on("unit_nonsi") ? "foo" : "mV");
        } else if (k == "ndims_extra") { arr("a1").appendSetDimension();
        } else if (k == "poly_noorigin") { if (on("poly_noorigin")) arr("a1").polynomCoefficients({1.0, 2.0}); else arr("a1").polynomCoefficients(nix::none);
        } else if (k == "offset_nounit" || k == "dimunit1") {
            nix::SampledDimension d = arr("a1").getDimension(1).asSampledDimension();
            if (on("offset_nounit")) { d.offset(1.0); d.unit(nix::none); }
            else { d.offset(nix::none); d.unit(on("dimunit1") ? "mV" : "ms"); }
        } else if (k == "dimunit2") { arr("a1").getDimension(2).asRangeDimension().unit(on("dimunit2") ? "s" : "mV");
        } else if (k == "interval0") {
            if (on("interval0")) { close(); h5WriteInterval(path, "/data/b/data_arrays/a1/dimensions/1", (seed % 2) ? 0.0 : -1.0); open(); }      // the API refuses it
            else arr("a1").getDimension(1).asSampledDimension().samplingInterval(0.5);
        } else if (k == "nlabels") {
            std::vector<std::string> l; for (nix::ndsize_t i = 0; i < n3 - (on("nlabels") ? 1 : 0); i++) l.push_back("l" + std::to_string(i));
            arr("a2").getDimension(1).asSetDimension().labels(l);
        } else if (k == "unit_missing") { if (on("unit_missing")) arr("a2").unit(nix::none); else arr("a2").unit("s");
        } else if (k == "ndims_extra2") { arr("a2").appendSampledDimension(1.0);
        } else if (k == "origin_nopoly") { if (on("origin_nopoly")) arr("a2").expansionOrigin(1.0); else arr("a2").expansionOrigin(nix::none);
        } else if (k == "nrows") { b().getDataFrame("df").rows(n4 + (on("nrows") ? 1 : 0));
        } else if (k == "nlabels_2nd") {
            std::vector<std::string> l; for (int i = 0; i < 3 - (on("nlabels_2nd") ? 1 : 0); i++) l.push_back("m" + std::to_string(i));
            arr("a4").getDimension(2).asSetDimension().labels(l);
        } else if (k == "nticks_1st") { std::vector<double> t; for (int i = 0; i < 2 + (on("nticks_1st") ? 1 : 0); i++) t.push_back(i); arr("a5").getDimension(1).asRangeDimension().ticks(t);
        } else if (k == "nticks_2nd") { std::vector<double> t; for (int i = 0; i < 3 + (on("nticks_2nd") ? 2 : 0); i++) t.push_back(0.5 * i); arr("a5").getDimension(2).asRangeDimension().ticks(t);
        } else if (k == "tagunit1" || k == "tagunit2") { b().getTag("tag").units({on("tagunit1") ? "mV" : "us", on("tagunit2") ? "s" : "V"});
        } else if (k == "prop_nounit") { nix::Property pr = f.getSection("sec").getProperty("prop"); if (on("prop_nounit")) pr.unit(nix::none); else pr.unit("mV");
        } else if (k == "featnodata") { b().deleteDataArray("af1");
        } else if (k == "featnodata2") { b().deleteDataArray("af2");
        } else if (k == "ndims_missing" || k == "ndims_none") {
            nix::DataArray a6 = arr("a6"); a6.deleteDimensions();
            if (!on("ndims_none")) a6.appendSampledDimension(1.0, "t", "ms");
            if (!on("ndims_none") && !on("ndims_missing")) a6.appendSampledDimension(2.0, "v", "mV");
        } else if (k == "nopositions") { close(); h5Unlink(path, "/data/b/multi_tags/mtag", "positions"); open();
        } else throw std::runtime_error("harness: unknown breach " + k);
    }
    void inject(const std::string &k) { cur.insert(k); sync(k); }
    void repair(const std::string &k) { cur.erase(k); sync(k); }

    // runs the validator on every entity and on the file; returns "" or the first difference to the expected verdicts
    std::string validate(json exp, const json &expW, json &obs, json &details, json &known) {
        nix::Block b = f.getBlock("b");
        obs = json::object(); details = json::object();
        json obsW = json::object();
        auto rec1 = [&](const std::string &key, std::function<nix::valid::Result()> fn) {
            try { nix::valid::Result r = fn(); obs[key] = r.hasErrors(); obsW[key] = r.hasWarnings();
                  if (r.hasErrors()) { json m = json::array(); for (auto &e : r.getErrors()) m.push_back(e.msg); details[key] = m; }
                  if (r.hasWarnings()) { json m = json::array(); for (auto &e : r.getWarnings()) m.push_back(e.msg); details["warn:" + key] = m; } }
            catch (const std::exception &e) { obs[key] = std::string("threw: ") + e.what(); }
        };
        nix::DataArray a1 = b.getDataArray("a1"), a2 = b.getDataArray("a2"), a3 = b.getDataArray("a3"), a4 = b.getDataArray("a4"), a5 = b.getDataArray("a5");
        nix::Tag t = b.getTag("tag"); nix::MultiTag m = b.getMultiTag("mtag");
        rec1("B", [&] { return nix::valid::validate(b); });
        rec1("A1", [&] { return nix::valid::validate(a1); });
        rec1("A2", [&] { return nix::valid::validate(a2); });
        rec1("A3", [&] { return nix::valid::validate(a3); });
        rec1("A4", [&] { return nix::valid::validate(a4); });
        rec1("A5", [&] { return nix::valid::validate(a5); });
        rec1("A6", [&] { return nix::valid::validate(b.getDataArray("a6")); });
        rec1("A7", [&] { return nix::valid::validate(b.getDataArray("a7")); });
        rec1("D71", [&] { return nix::valid::validate(b.getDataArray("a7").getDimension(1).asRangeDimension()); });
        rec1("T2", [&] { return nix::valid::validate(b.getTag("tag2")); });
        rec1("D11", [&] { return nix::valid::validate(a1.getDimension(1).asSampledDimension()); });
        rec1("D12", [&] { return nix::valid::validate(a1.getDimension(2).asRangeDimension()); });
        rec1("D21", [&] { return nix::valid::validate(a2.getDimension(1).asSetDimension()); });
        rec1("D31", [&] { return nix::valid::validate(a3.getDimension(1)); });
        rec1("T", [&] { return nix::valid::validate(t); });
        rec1("M", [&] { return nix::valid::validate(m); });
        rec1("FT", [&] { return nix::valid::validate(t.getFeature(0)); });
        rec1("FM", [&] { return nix::valid::validate(m.getFeature(0)); });
        rec1("S", [&] { return nix::valid::validate(f.getSection("sec")); });
        rec1("PR", [&] { return nix::valid::validate(f.getSection("sec").getProperty("prop")); });
        // the validation of the whole file reports an error iff some entity has one
        bool any = false; for (auto it = exp.begin(); it != exp.end(); ++it) any = any || it.value().get<bool>();
        exp["FILE"] = any;
        bool fileWarn = false;
        try { nix::valid::Result r = f.validate(); obs["FILE"] = r.hasErrors(); fileWarn = r.hasWarnings(); } catch (const std::exception &e) { obs["FILE"] = std::string("threw: ") + e.what(); }
        std::string d = firstDiff(exp, obs);
        if (!d.empty() || expW.is_null()) return d;
        // soft-rule breaches: the entity must carry at least one warning (warnings of conforming entities are not judged),
        // and so must the validation of the whole file
        bool anyW = false;
        for (auto it = expW.begin(); it != expW.end(); ++it) {
            if (!it.value().get<bool>()) continue;
            bool got = obsW.value(it.key(), false);
            if (!got && it.key() == "A2" && on("unit_missing") && !on("origin_nopoly")) {
                // known deviation: an array without any unit is not reported at all (C19-missing-unit-silent); with the
                // other soft breach of A2 absent this is exactly the predicted result
                known.push_back("C19-missing-unit-silent");
                continue;
            }
            anyW = true;
            if (!got) { obs = obsW; return "warning:/" + it.key(); }
        }
        if (anyW && !fileWarn) { obs = obsW; obs["FILE"] = false; return "warning:/FILE"; }
        return "";
    }
};

json handle(Ctx &c, const json &rec) {
    Sess s; s.path = c.path("valid.nix"); s.seed = c.seed;
    s.build();
    // breaches present from the start, in a fixed order (each facet is written once, from the full set)
    for (auto it = rec["init"].begin(); it != rec["init"].end(); ++it) if (it.value().get<bool>()) s.cur.insert(it.key());
    { std::set<std::string> todo = s.cur; for (auto &k : todo) s.sync(k); }
    s.close(); s.open();
    int n = 0;
    json known = json::array();
    json steps = rec["pre"]; steps.push_back(rec["step"]);
    for (size_t i = 0; i < steps.size(); i++) {
        const json &st = steps[i];
        std::string a = st["a"].get<std::string>(), b = st["b"].get<std::string>();
        if (a == "Inject") s.inject(b);
        else if (a == "Repair") s.repair(b);
        else if (a == "Reopen") { s.close(); s.open(); }
        else if (a == "Validate") {
            json obs, details;
            std::string d = s.validate(st["errors"], st.value("warns", json()), obs, details, known);
            n += 21;
            if (!d.empty()) {
                json exp = d.rfind("warning:", 0) == 0 ? st["warns"] : st["errors"];
                json r = mismatch("valid:step" + std::to_string(i + 1) + ":" + d, exp, obs);
                r["messages"] = details; r["n"] = n;
                if (!known.empty()) r["known"] = known;
                s.close();
                return r;
            }
        } else throw std::runtime_error("harness: unknown step " + a);
    }
    s.close();
    json r = ok(); r["n"] = n;
    if (!known.empty()) r["known"] = known;
    return r;
}
Reg reg("valid", handle);
}
