// Handler "valid": the validator on a rule-conforming base file with injected breaches (NixValid.tla; C19)
#include "common.hpp"
#include <nix/valid/validate.hpp>

namespace {

void h5WriteTicks(const std::string &path, const std::string &dimPath, const std::vector<double> &t) {
    hid_t f = H5Fopen(path.c_str(), H5F_ACC_RDWR, H5P_DEFAULT);
    hid_t d = H5Dopen2(f, (dimPath + "/ticks").c_str(), H5P_DEFAULT);
    if (d < 0) { H5Fclose(f); throw std::runtime_error("harness: cannot open ticks data set " + dimPath); }
    hsize_t n = t.size(); H5Dset_extent(d, &n);
    herr_t e = H5Dwrite(d, H5T_NATIVE_DOUBLE, H5S_ALL, H5S_ALL, H5P_DEFAULT, t.data());
    H5Dclose(d); H5Fclose(f);
    if (e < 0) throw std::runtime_error("harness: cannot write ticks");
}
void h5WriteInterval(const std::string &path, const std::string &dimPath, double v) {
    hid_t f = H5Fopen(path.c_str(), H5F_ACC_RDWR, H5P_DEFAULT);
    hid_t g = H5Gopen2(f, dimPath.c_str(), H5P_DEFAULT);
    hid_t a = H5Aopen(g, "sampling_interval", H5P_DEFAULT);
    herr_t e = (a < 0) ? -1 : H5Awrite(a, H5T_NATIVE_DOUBLE, &v);
    if (a >= 0) H5Aclose(a); H5Gclose(g); H5Fclose(f);
    if (e < 0) throw std::runtime_error("harness: cannot write sampling_interval");
}
void h5Unlink(const std::string &path, const std::string &grp, const std::string &name) {
    hid_t f = H5Fopen(path.c_str(), H5F_ACC_RDWR, H5P_DEFAULT);
    hid_t g = H5Gopen2(f, grp.c_str(), H5P_DEFAULT);
    herr_t e = (g < 0) ? -1 : H5Ldelete(g, name.c_str(), H5P_DEFAULT);
    if (g >= 0) H5Gclose(g); H5Fclose(f);
    if (e < 0) throw std::runtime_error("harness: cannot unlink " + grp + "/" + name);
}

json handle(Ctx &c, const json &rec) {
    const json &bs = rec["bs"];
    auto on = [&](const char *k) { return bs[k].get<bool>(); };
    std::string path = c.path("valid.nix");
    long v = c.seed % 3;                       // base-file variation: data lengths
    nix::ndsize_t n1 = 3 + (nix::ndsize_t) v, n2 = 4, n3 = 3 + (nix::ndsize_t) (v % 2), n4 = 2 + (nix::ndsize_t) v;
    {
        nix::File f = nix::File::open(path, nix::FileMode::Overwrite);
        nix::Block b = f.createBlock("b", "t");
        nix::DataArray a1 = b.createDataArray("a1", "t", nix::DataType::Double, nix::NDSize({n1, n2}));
        nix::SampledDimension d11 = a1.appendSampledDimension(0.5, "time", "ms");
        std::vector<double> ticks; for (nix::ndsize_t i = 0; i < n2 + (on("nticks") ? 1 : 0); i++) ticks.push_back(1.0 + 0.75 * i);
        a1.appendRangeDimension(ticks, "voltage", "mV");
        a1.unit(on("unit_nonsi") ? "foo" : "mV");
        if (on("ndims_extra")) a1.appendSetDimension();
        if (on("poly_noorigin")) a1.polynomCoefficients({1.0, 2.0});
        if (on("offset_nounit")) { d11.offset(1.0); d11.unit(nix::none); }
        nix::DataArray a2 = b.createDataArray("a2", "t", nix::DataType::Double, nix::NDSize({n3}));
        std::vector<std::string> labels; for (nix::ndsize_t i = 0; i < n3 - (on("nlabels") ? 1 : 0); i++) labels.push_back("l" + std::to_string(i));
        a2.appendSetDimension(labels);
        if (!on("unit_missing")) a2.unit("s");
        if (on("ndims_extra2")) a2.appendSampledDimension(1.0);
        if (on("origin_nopoly")) a2.expansionOrigin(1.0);
        nix::DataArray a3 = b.createDataArray("a3", "t", nix::DataType::Double, nix::NDSize({n4}));
        std::vector<nix::Column> cols = {{"c0", "", nix::DataType::Double}};
        nix::DataFrame df = b.createDataFrame("df", "t", cols);
        df.rows(n4 + (on("nrows") ? 1 : 0));
        a3.appendDataFrameDimension(df, 0u);
        a3.unit("V");
        // arrays with several dimensions of the same kind: a breach in a later dimension must not hide behind an earlier one
        nix::DataArray a4 = b.createDataArray("a4", "t", nix::DataType::Double, nix::NDSize({2, 3}));
        a4.appendSetDimension();
        { std::vector<std::string> l2; for (int i = 0; i < 3 - (on("nlabels_2nd") ? 1 : 0); i++) l2.push_back("m" + std::to_string(i)); a4.appendSetDimension(l2); }
        a4.unit("V");
        nix::DataArray a5 = b.createDataArray("a5", "t", nix::DataType::Double, nix::NDSize({2, 3}));
        { std::vector<double> t1, t2; for (int i = 0; i < 2 + (on("nticks_1st") ? 1 : 0); i++) t1.push_back(i); for (int i = 0; i < 3 + (on("nticks_2nd") ? 2 : 0); i++) t2.push_back(0.5 * i);
          a5.appendRangeDimension(t1, "x", "ms"); a5.appendRangeDimension(t2, "y", "ms"); }
        a5.unit("V");
        nix::DataArray af1 = b.createDataArray("af1", "t", nix::DataType::Double, nix::NDSize({2})); af1.unit("V"); af1.appendSetDimension();
        nix::DataArray af2 = b.createDataArray("af2", "t", nix::DataType::Double, nix::NDSize({2})); af2.unit("V"); af2.appendSetDimension();
        nix::Tag t = b.createTag("tag", "t", {1.0, 2.0});
        t.extent({0.5, 1.0});
        t.units({on("tagunit1") ? "mV" : "us", on("tagunit2") ? "s" : "V"});
        t.addReference(a1);
        t.createFeature(af1, nix::LinkType::Untagged);
        nix::DataArray p = b.createDataArray("pos", "t", nix::DataType::Double, nix::NDSize({2})); p.unit("s"); p.appendSetDimension();
        nix::MultiTag m = b.createMultiTag("mtag", "t", p);
        m.addReference(a2);
        m.createFeature(af2, nix::LinkType::Indexed);
        nix::Section s = f.createSection("sec", "t");
        nix::Property pr = s.createProperty("prop", nix::Variant(1.0));
        if (!on("prop_nounit")) pr.unit("mV");
        b.metadata(s);
        if (on("featnodata")) b.deleteDataArray(af1);
        if (on("featnodata2")) b.deleteDataArray(af2);
        f.close();
    }
    // breaches the API does not let through are written with the HDF5 C API
    if (on("unsorted")) { std::vector<double> t; nix::ndsize_t k = n2 + (on("nticks") ? 1 : 0); for (nix::ndsize_t i = 0; i < k; i++) t.push_back(1.0 + 0.75 * i); std::swap(t[0], t[2]); h5WriteTicks(path, "/data/b/data_arrays/a1/dimensions/2", t); }
    if (on("interval0")) h5WriteInterval(path, "/data/b/data_arrays/a1/dimensions/1", (c.seed % 2) ? 0.0 : -1.0);
    if (on("nopositions")) h5Unlink(path, "/data/b/multi_tags/mtag", "positions");

    nix::File f = nix::File::open(path, nix::FileMode::ReadOnly);
    nix::Block b = f.getBlock("b");
    json obs = json::object();
    json details = json::object();
    auto rec1 = [&](const std::string &key, std::function<nix::valid::Result()> fn) {
        try { nix::valid::Result r = fn(); obs[key] = r.hasErrors();
              if (r.hasErrors()) { json m = json::array(); for (auto &e : r.getErrors()) m.push_back(e.msg); details[key] = m; } }
        catch (const std::exception &e) { obs[key] = std::string("threw: ") + e.what(); }
    };
    nix::DataArray a1 = b.getDataArray("a1"), a2 = b.getDataArray("a2"), a3 = b.getDataArray("a3"), a4 = b.getDataArray("a4"), a5 = b.getDataArray("a5");
    nix::Tag t = b.getTag("tag"); nix::MultiTag m = b.getMultiTag("mtag");
    rec1("B", [&] { return nix::valid::validate(b); });
    rec1("A1", [&] { return nix::valid::validate(a1); });
    rec1("A2", [&] { return nix::valid::validate(a2); });
    rec1("A3", [&] { return nix::valid::validate(a3); });
    rec1("A4", [&] { return nix::valid::validate(a4); });
    rec1("A5", [&] { return nix::valid::validate(a5); });
    rec1("D11", [&] { return nix::valid::validate(a1.getDimension(1).asSampledDimension()); });
    rec1("D12", [&] { return nix::valid::validate(a1.getDimension(2).asRangeDimension()); });
    rec1("D21", [&] { return nix::valid::validate(a2.getDimension(1).asSetDimension()); });
    rec1("D31", [&] { return nix::valid::validate(a3.getDimension(1)); });
    rec1("T", [&] { return nix::valid::validate(t); });
    rec1("M", [&] { return nix::valid::validate(m); });
    rec1("FT", [&] { return nix::valid::validate(t.getFeature(0)); });
    rec1("FM", [&] { return nix::valid::validate(m.getFeature(0)); });
    rec1("S", [&] { return nix::valid::validate(f.getSection("sec")); });
    rec1("PR", [&] { return nix::valid::validate(f.getSection("sec").getProperty("prop")); });
    json exp = rec["errors"];
    // the validation of the whole file reports an error iff some entity has one
    bool any = false; for (auto it = exp.begin(); it != exp.end(); ++it) any = any || it.value().get<bool>();
    exp["FILE"] = any;
    try { obs["FILE"] = f.validate().hasErrors(); } catch (const std::exception &e) { obs["FILE"] = std::string("threw: ") + e.what(); }
    f.close();
    std::string d = firstDiff(exp, obs);
    json r = d.empty() ? ok() : mismatch("valid:" + d, exp, obs);
    if (!d.empty()) r["messages"] = details;
    r["n"] = 17;
    return r;
}
Reg reg("valid", handle);
}
