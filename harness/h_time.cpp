// Handler "time": created_at / updated_at histories of NixTime.tla on a real entity of every kind
#include "common.hpp"
#include <ctime>

namespace {

const char *KINDS[] = {"block", "section", "array", "tag", "mtag", "source", "group", "frame", "prop", "feature"};
time_t forced(long k) { return k == 1 ? (time_t) 1000000000 : k == 2 ? (time_t) 0 : (time_t) 4102444800LL; }
const time_t BACKDATED = 946684800;          // 2000-01-01T00:00:00: what updated_at is set to on disk right after creation
const char *BACKDATED_STR = "20000101T000000";

struct S {
    std::string path, kind; nix::File f;
    nix::Block b; nix::Section sec; nix::DataArray a; nix::Tag t; nix::MultiTag mt; nix::Source src; nix::Group g; nix::DataFrame df; nix::Property p; nix::Feature ft;
    std::string h5path;
    void open() {
        f = nix::File::open(path, nix::FileMode::ReadWrite);
        b = f.getBlock("b"); sec = f.getSection("s"); a = b.getDataArray("a"); t = b.getTag("t"); mt = b.getMultiTag("mt"); src = b.getSource("src");
        g = b.getGroup("g"); df = b.getDataFrame("df"); p = sec.getProperty("p"); ft = t.getFeature(0);
    }
    void close() { f.close(); }
#define EACH(call) (kind == "block" ? b.call : kind == "section" ? sec.call : kind == "array" ? a.call : kind == "tag" ? t.call : kind == "mtag" ? mt.call \
                    : kind == "source" ? src.call : kind == "group" ? g.call : kind == "frame" ? df.call : kind == "prop" ? p.call : ft.call)
    time_t created() { return EACH(createdAt()); }
    time_t updated() { return EACH(updatedAt()); }
    void forceCreated(time_t v) { EACH(forceCreatedAt(v)); }
    void forceUpdated() { EACH(forceUpdatedAt()); }
    void setCreated() { EACH(setCreatedAt()); }
    void setUpdated() { EACH(setUpdatedAt()); }
#undef EACH
    // an attribute setter of the entity; n selects the attribute, v alternates the value so that it really changes
    void setter(long n, long v) {
        std::string val = "v" + std::to_string(v);
        if (kind == "prop") { if (n == 1) p.unit(v % 2 ? "mV" : "s"); else if (n == 2) p.definition(val); else p.uncertainty(0.5 * (v + 1)); return; }
        if (kind == "feature") { ft.linkType(v % 2 ? nix::LinkType::Untagged : nix::LinkType::Indexed); return; }
        if (n == 1) { if (kind == "block") b.type(val); else if (kind == "section") sec.type(val); else if (kind == "array") a.type(val); else if (kind == "tag") t.type(val);
                      else if (kind == "mtag") mt.type(val); else if (kind == "source") src.type(val); else if (kind == "group") g.type(val); else df.type(val); return; }
        if (n == 2) { if (kind == "block") b.definition(val); else if (kind == "section") sec.definition(val); else if (kind == "array") a.definition(val); else if (kind == "tag") t.definition(val);
                      else if (kind == "mtag") mt.definition(val); else if (kind == "source") src.definition(val); else if (kind == "group") g.definition(val); else df.definition(val); return; }
        // kind-specific
        if (kind == "block") b.definition(nix::none); else if (kind == "section") sec.repository(val); else if (kind == "array") a.label(val);
        else if (kind == "tag") t.units({v % 2 ? "mV" : "s"}); else if (kind == "mtag") mt.units({v % 2 ? "mV" : "s"}); else if (kind == "source") src.definition(nix::none);
        else if (kind == "group") g.definition(nix::none); else df.definition(nix::none);
    }
    // reads every cheap attribute of the entity (must not stamp anything)
    void getters() {
        if (kind == "block") { (void) b.name(); (void) b.type(); (void) b.definition(); (void) b.dataArrayCount(); (void) b.metadata(); }
        else if (kind == "section") { (void) sec.name(); (void) sec.type(); (void) sec.repository(); (void) sec.propertyCount(); (void) sec.link(); }
        else if (kind == "array") { (void) a.name(); (void) a.label(); (void) a.unit(); (void) a.dataExtent(); (void) a.dimensionCount(); std::vector<double> d(2); a.getData(nix::DataType::Double, d.data(), nix::NDSize({2}), nix::NDSize({0})); }
        else if (kind == "tag") { (void) t.position(); (void) t.extent(); (void) t.units(); (void) t.referenceCount(); (void) t.featureCount(); }
        else if (kind == "mtag") { (void) mt.positions(); (void) mt.units(); (void) mt.referenceCount(); (void) mt.extents(); }
        else if (kind == "source") { (void) src.name(); (void) src.sourceCount(); (void) src.definition(); }
        else if (kind == "group") { (void) g.name(); (void) g.dataArrayCount(); (void) g.tagCount(); }
        else if (kind == "frame") { (void) df.rows(); (void) df.columns(); (void) df.readRow(0); }
        else if (kind == "prop") { (void) p.values(); (void) p.unit(); (void) p.dataType(); (void) p.valueCount(); }
        else { (void) ft.linkType(); (void) ft.data(); }
    }
};

// overwrites the string attribute `name` of the object at `obj` with `val`, using the attribute's own type
void h5SetStrAttr(const std::string &path, const std::string &obj, const char *name, const char *val) {
    hid_t f = H5Fopen(path.c_str(), H5F_ACC_RDWR, H5P_DEFAULT);
    hid_t o = H5Oopen(f, obj.c_str(), H5P_DEFAULT);
    hid_t at = o < 0 ? -1 : H5Aopen(o, name, H5P_DEFAULT);
    herr_t e = -1;
    if (at >= 0) {
        hid_t ty = H5Aget_type(at);
        if (H5Tis_variable_str(ty) > 0) { const char *v = val; e = H5Awrite(at, ty, &v); }
        else { size_t n = H5Tget_size(ty); std::vector<char> buf(n + 1, 0); strncpy(buf.data(), val, n); e = H5Awrite(at, ty, buf.data()); }
        H5Tclose(ty); H5Aclose(at);
    }
    if (o >= 0) H5Oclose(o);
    H5Fclose(f);
    if (e < 0) throw std::runtime_error("harness: cannot backdate updated_at of " + obj);
}

json handle(Ctx &c, const json &rec) {
    S s; s.path = c.path("time.nix");
    json all = rec["pre"]; all.push_back(rec["step"]);
    // the entity kind rotates with the seed and the shape of the history
    size_t h = (size_t) c.seed + all.size() * 3;
    for (auto &st : all) h = h * 31 + st["a"].get<std::string>().size() + (size_t) st["k"].get<long>();
    s.kind = c.opts.contains("kind") ? c.opts["kind"].get<std::string>() : KINDS[h % 10];
    for (auto &st : all) if (st["a"] == "UnstampedSetter") s.kind = "tag";      // the deviation is one of Tag
    time_t born0 = time(nullptr);
    std::string featId;
    {
        nix::File f = nix::File::open(s.path, nix::FileMode::Overwrite);
        nix::Block b = f.createBlock("b", "t"); nix::Section sec = f.createSection("s", "t");
        nix::DataArray a = b.createDataArray("a", "t", nix::DataType::Double, nix::NDSize({2}));
        nix::Tag t = b.createTag("t", "t", {1.0}); nix::MultiTag mt = b.createMultiTag("mt", "t", a);
        b.createSource("src", "t"); b.createGroup("g", "t");
        std::vector<nix::Column> cols = {{"c", "", nix::DataType::Double}}; nix::DataFrame df = b.createDataFrame("df", "t", cols); df.rows(1);
        sec.createProperty("p", nix::Variant(1.0));
        featId = t.createFeature(a, nix::LinkType::Tagged).id();
        f.close();
    }
    time_t born1 = time(nullptr);
    s.h5path = s.kind == "block" ? "/data/b" : s.kind == "section" ? "/metadata/s" : s.kind == "array" ? "/data/b/data_arrays/a" : s.kind == "tag" ? "/data/b/tags/t"
             : s.kind == "mtag" ? "/data/b/multi_tags/mt" : s.kind == "source" ? "/data/b/sources/src" : s.kind == "group" ? "/data/b/groups/g"
             : s.kind == "frame" ? "/data/b/data_frames/df" : s.kind == "prop" ? "/metadata/s/properties/p" : "/data/b/tags/t/features/" + featId;
    h5SetStrAttr(s.path, s.h5path, "updated_at", BACKDATED_STR);
    s.open();
    time_t ca0 = s.created();
    if (ca0 < born0 || ca0 > born1) return mismatch("time:created_at at creation", json{{"from", (long) born0}, {"to", (long) born1}}, (long) ca0);
    if (s.updated() != BACKDATED) return json{{"v", "harness_exception"}, {"what", "backdating updated_at did not work: " + std::to_string((long) s.updated())}};
    time_t ua = BACKDATED, ca = ca0;
    long n = 0;
    for (size_t i = 0; i < all.size(); i++) {
        const json &st = all[i]; std::string a = st["a"]; long k = st["k"];
        time_t t0 = time(nullptr);
        bool stamps = false;
        if (a == "Setter") { s.setter(k, (long) i); stamps = true; }
        else if (a == "ForceUpdatedAt") { s.forceUpdated(); stamps = true; }
        else if (a == "UnstampedSetter") { if (k == 1) s.t.position({1.0 + (double) i}); else s.t.extent({0.5 + (double) i}); }
        else if (a == "SetUpdatedAt") s.setUpdated();
        else if (a == "SetCreatedAt") s.setCreated();
        else if (a == "ForceCreatedAt") { s.forceCreated(forced(k)); ca = forced(k); }
        else if (a == "Getters") s.getters();
        else if (a == "Reopen") { s.close(); s.open(); }
        else throw std::runtime_error("harness: unknown step " + a);
        time_t t1 = time(nullptr);
        time_t gotC = s.created(), gotU = s.updated();
        n += 2;
        std::string at = "time:" + s.kind + ":step" + std::to_string(i + 1) + ":" + a;
        bool judgedStep = (i + 1 == all.size());
        auto verdict = [&](json r) { if (!judgedStep) r = json{{"v", "unjudgeable"}, {"what", "prefix deviates: " + r["what"].get<std::string>()}}; r["n"] = n; return r; };
        if (gotC != ca) return verdict(mismatch(at + ":created_at", (long) ca, (long) gotC));
        if (stamps) {
            if (gotU < t0 || gotU > t1) return verdict(mismatch(at + ":updated_at not stamped with the current time", json{{"from", (long) t0}, {"to", (long) t1}}, (long) gotU));
            ua = gotU;
        } else if (gotU != ua) return verdict(mismatch(at + ":updated_at changed", (long) ua, (long) gotU));
    }
    s.close();
    json r = ok(); r["n"] = n; r["kind"] = s.kind;
    return r;
}
Reg reg("time", handle);
}
