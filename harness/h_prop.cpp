// Handler "prop": histories of NixProp.tla on a real metadata Property (C14; rejected assignments also C08)
#include "common.hpp"
#include <cmath>
#include <limits>

namespace {

// concrete value for (type, code, position): extremes, NaN / inf, empty / long / UTF-8 strings
nix::Variant valueOf(const std::string &t, long code, size_t pos) {
    if (t == "Bool") return nix::Variant((bool) ((code + pos) % 2));
    if (t == "Int32") { int32_t v[] = {0, std::numeric_limits<int32_t>::min(), std::numeric_limits<int32_t>::max(), -1}; return nix::Variant(code == 3 ? (int32_t) pos : v[code]); }
    if (t == "UInt32") { uint32_t v[] = {0, 0u, std::numeric_limits<uint32_t>::max(), 7u}; return nix::Variant(code == 3 ? (uint32_t) (pos * 3) : v[code]); }
    if (t == "Int64") { int64_t v[] = {0, std::numeric_limits<int64_t>::min(), std::numeric_limits<int64_t>::max(), -1}; return nix::Variant(code == 3 ? (int64_t) pos - 5 : v[code]); }
    if (t == "UInt64") { uint64_t v[] = {0, 0u, std::numeric_limits<uint64_t>::max(), 7u}; return nix::Variant(code == 3 ? (uint64_t) pos : v[code]); }
    if (t == "Double") {
        if (code == 1) return nix::Variant(pos % 3 == 0 ? std::numeric_limits<double>::quiet_NaN() : pos % 3 == 1 ? std::numeric_limits<double>::infinity() : -std::numeric_limits<double>::infinity());
        if (code == 2) return nix::Variant(pos % 2 ? std::numeric_limits<double>::max() : std::numeric_limits<double>::denorm_min());
        return nix::Variant(0.1 * pos - 1.5);
    }
    if (code == 1) return nix::Variant(std::string(""));
    if (code == 2) return nix::Variant(std::string(300 + pos, 'x'));
    return nix::Variant(std::string("\xc3\xa4\xe6\x97\xa5\xe2\x98\x83") + std::to_string(pos));
}
std::string otherType(const std::string &t) { return t == "Double" ? "Int32" : "Double"; }
nix::DataType dtOf(const std::string &t) {
    return t == "Bool" ? nix::DataType::Bool : t == "Int32" ? nix::DataType::Int32 : t == "UInt32" ? nix::DataType::UInt32 : t == "Int64" ? nix::DataType::Int64
         : t == "UInt64" ? nix::DataType::UInt64 : t == "Double" ? nix::DataType::Double : nix::DataType::String;
}
bool sameVariant(const nix::Variant &a, const nix::Variant &b) {
    if (a.type() != b.type()) return false;
    if (a.type() == nix::DataType::Double) { double x = a.get<double>(), y = b.get<double>(); return (std::isnan(x) && std::isnan(y)) || x == y; }
    return a == b;
}
// abstract sequence -> concrete vector of the stretched length
size_t stretch(size_t len, long seed) {
    if (len <= 1) return len;
    if (len == 2) return (seed % 2) ? 8 : 2;
    size_t L[] = {7, 9, 64, 3}; return L[seed % 4];
}
std::vector<nix::Variant> concrete(const std::string &t, const json &s, long bad, long seed) {
    std::vector<nix::Variant> v;
    size_t len = s.size(), L = stretch(len, seed);
    for (size_t i = 0; i < L; i++) {
        long code = s[i % len];
        // the offending element sits at the stretched image of position `bad`
        bool isBad = (bad > 0 && bad < 10 && (i == (size_t) (bad - 1) * (L / len)))
                     || (bad > 10 && i >= (size_t) (bad - 11) * (L / len) && i >= 1);
        v.push_back(valueOf(isBad ? otherType(t) : t, code, i));
    }
    return v;
}

struct S { nix::File f; nix::Section sec; nix::Property p; std::string path, type; long seed; std::string unitText; long unitCode = 0; };
// Property units are free text (no blanks): the abstract unit codes 1 / 2 stand for a rotating dictionary of concrete strings, and
// the string read back must be, character for character, the one assigned last
std::string unitText(long code, long k) {
    static const char *U1[] = {"mV", "\xc2\xb5V", "mumol/l", "kg*m^2/s^3", "%", "mu"};
    static const char *U2[] = {"arbitrary", "stimuli/s", "a.u.", "\xc2\xb0" "C", "dB(\xc2\xb5Pa)", "MUmu"};
    return code == 1 ? U1[(size_t) k % 6] : U2[(size_t) k % 6];
}

json observeVia(S &s, nix::Property &P, const json &exp) {
    json o = exp;
    o["dtype"] = (P.dataType() == dtOf(s.type)) ? s.type : "changed";
    std::vector<nix::Variant> got = P.values();
    if (exp["known"].get<bool>()) {
        std::vector<nix::Variant> want = concrete(s.type, exp["vals"], 0, s.seed);
        bool same = got.size() == want.size() && P.valueCount() == want.size();
        for (size_t i = 0; same && i < got.size(); i++) same = sameVariant(got[i], want[i]);
        if (!same) o["vals"] = "differ: count " + std::to_string(got.size()) + "/" + std::to_string(P.valueCount()) + " expected " + std::to_string(want.size());
    }
    boost::optional<std::string> u = P.unit();
    o["unit"] = !u ? 0 : (s.unitCode != 0 && *u == s.unitText ? s.unitCode : -99);
    if (o["unit"] == -99) o["unit_text"] = {{"read", *u}, {"assigned", s.unitCode ? s.unitText : std::string("(none)")}};
    boost::optional<double> c = P.uncertainty();
    o["unc"] = !c ? 0 : (*c == 0.25 ? 1 : *c == 1e-300 ? 2 : -99);
    boost::optional<std::string> d = P.definition();
    o["def"] = !d ? 0 : (*d == "some definition" ? 1 : -99);
    return o;
}

// the handle the client kept since creation and a fresh look-up must both show the state the specification predicts
json observe(S &s, const json &exp) {
    json o = observeVia(s, s.p, exp);
    if (!firstDiff(exp, o).empty()) return o;
    nix::Property q = s.sec.getProperty("p");
    json o2 = observeVia(s, q, exp);
    if (!firstDiff(exp, o2).empty()) o2["via"] = "fresh handle";
    return o2;
}

std::string doStep(S &s, const json &st, long k) {
    std::string a = st["a"]; const json &v = st["v"]; long x = v["x"];
    // every other call goes through a fresh handle instead of the one kept since creation
    nix::Property fresh = (k % 2) ? s.sec.getProperty("p") : s.p;
    nix::Property &P = (k % 2) ? fresh : s.p;
    if (a == "Assign") return outcome([&] { P.values(concrete(s.type, v["s"], v["bad"], s.seed)); });
    if (a == "Clear") return outcome([&] { if (s.seed % 2) P.values(nix::none); else P.deleteValues(); });
    if (a == "SetUnit") return outcome([&] { std::string t = x == 0 ? "" : unitText(x, k + s.seed); if (x == 0) P.unit(nix::none); else P.unit(t); s.unitText = t; s.unitCode = x; });
    if (a == "SetUnc") return outcome([&] { if (x == 0) P.uncertainty(nix::none); else P.uncertainty(x == 1 ? 0.25 : 1e-300); });
    if (a == "SetDef") return outcome([&] { if (x == 0) P.definition(nix::none); else P.definition(x == 1 ? "some definition" : ""); });
    if (a == "Reopen") return outcome([&] { s.f.close(); s.f = nix::File::open(s.path, nix::FileMode::ReadWrite); s.sec = s.f.getSection("s"); s.p = s.sec.getProperty("p"); });
    throw std::runtime_error("harness: unknown prop action " + a);
}

json handle(Ctx &c, const json &rec) {
    S s; s.path = c.path("prop.nix"); s.seed = c.seed;
    const json &post = rec["post"];
    s.type = post["dtype"];
    std::string how = post["how"];
    s.f = nix::File::open(s.path, nix::FileMode::Overwrite);
    s.sec = s.f.createSection("s", "t");
    if (how == "dtype") s.p = s.sec.createProperty("p", dtOf(s.type));
    else if (how == "value") s.p = s.sec.createProperty("p", concrete(s.type, json::array({2}), 0, s.seed)[0]);
    else s.p = s.sec.createProperty("p", concrete(s.type, json::array({1, 3}), 0, s.seed));
    std::vector<json> all(rec["pre"].begin(), rec["pre"].end());
    all.push_back(rec["step"]);
    json result = ok();
    for (size_t i = 0; i < all.size(); i++) {
        bool last = i + 1 == all.size();
        std::string r = doStep(s, all[i], (long) i);
        if (r != all[i]["res"].get<std::string>()) {
            if (!last) { result = json{{"v", "unjudgeable"}, {"what", "prefix step outcome differs"}, {"step", all[i]}, {"observed", r}}; break; }
            result = mismatch("outcome:" + all[i]["a"].get<std::string>(), all[i]["res"], r); break;
        }
        if (!last) { try { (void) s.p.values(); (void) s.p.valueCount(); (void) s.p.unit(); (void) s.p.uncertainty(); (void) s.p.definition(); (void) s.p.dataType(); } catch (...) {} }
        if (last) {
            json obs = observe(s, post);
            std::string d = firstDiff(post, obs);
            if (!d.empty()) { result = mismatch("obs:" + d, post, obs); break; }
            s.f.close(); s.f = nix::File::open(s.path, nix::FileMode::ReadOnly); s.sec = s.f.getSection("s"); s.p = s.sec.getProperty("p");
            json obs2 = observe(s, post);
            std::string d2 = firstDiff(post, obs2);
            if (!d2.empty()) result = mismatch("reopen-obs:" + d2, post, obs2);
        }
    }
    try { s.f.close(); } catch (...) {}
    return result;
}
Reg reg("prop", handle);
}
