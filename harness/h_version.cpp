// Handler "version": header / version gate / open modes (NixVersion.tla; C09 header part, C10)
#include "common.hpp"
#include <fstream>
#include <sys/stat.h>

namespace {

struct VSession {
    nix::File f;
    bool open = false;
};

bool fileExists(const std::string &p) { struct stat st; return stat(p.c_str(), &st) == 0; }

// header as seen through the HDF5 C API (file must not be open for writing elsewhere)
json diskHeader(const std::string &p) {
    json o = {{"exists", fileExists(p)}, {"kind", "nix"}, {"fmt", "missing"}, {"hasVer", false}, {"hasId", false},
              {"vx", 0}, {"vy", 0}, {"vz", 0}, {"blocks", -1}};
    if (!o["exists"].get<bool>()) return o;
    htri_t is = H5Fis_hdf5(p.c_str());
    if (is <= 0) { o["kind"] = "nothdf5"; return o; }
    hid_t f = H5Fopen(p.c_str(), H5F_ACC_RDONLY, H5P_DEFAULT);
    if (f < 0) { o["kind"] = "nothdf5"; return o; }
    hid_t root = H5Gopen2(f, "/", H5P_DEFAULT);
    if (H5Lexists(root, "data", H5P_DEFAULT) > 0) {
        hid_t g = H5Gopen2(root, "data", H5P_DEFAULT);
        H5G_info_t gi; H5Gget_info(g, &gi); o["blocks"] = (long) gi.nlinks; H5Gclose(g);
    } else o["kind"] = "plainhdf5";
    if (H5Aexists(root, "format") > 0) {
        hid_t a = H5Aopen(root, "format", H5P_DEFAULT);
        hid_t t = H5Aget_type(a);
        std::string s;
        if (H5Tis_variable_str(t) > 0) { char *c = nullptr; hid_t mt = H5Tget_native_type(t, H5T_DIR_ASCEND);
            herr_t e = H5Aread(a, mt, &c); if (e < 0) s = "<readerr>"; if (c) { s = c; H5free_memory(c); } H5Tclose(mt); }
        else { size_t n = H5Tget_size(t); std::vector<char> b(n + 1, 0); H5Aread(a, t, b.data()); s = b.data(); }
        o["fmt"] = (s == "nix") ? "nix" : "wrong";
        H5Tclose(t); H5Aclose(a);
    }
    if (H5Aexists(root, "version") > 0) {
        hid_t a = H5Aopen(root, "version", H5P_DEFAULT);
        int v[3] = {0, 0, 0};
        if (H5Aread(a, H5T_NATIVE_INT, v) >= 0) { o["hasVer"] = true; o["vx"] = v[0]; o["vy"] = v[1]; o["vz"] = v[2]; }
        H5Aclose(a);
    }
    o["hasId"] = H5Aexists(root, "id") > 0;
    H5Gclose(root); H5Fclose(f);
    return o;
}

void setVersionAttr(const std::string &p, int x, int y, int z) {
    hid_t f = H5Fopen(p.c_str(), H5F_ACC_RDWR, H5P_DEFAULT);
    hid_t root = H5Gopen2(f, "/", H5P_DEFAULT);
    hid_t a = H5Aopen(root, "version", H5P_DEFAULT);
    int v[3] = {x, y, z};
    if (a < 0 || H5Awrite(a, H5T_NATIVE_INT, v) < 0) throw std::runtime_error("harness: cannot write version attribute");
    H5Aclose(a); H5Gclose(root); H5Fclose(f);
}

void injectDefect(const std::string &p, const std::string &d) {
    if (d == "absent") { unlink(p.c_str()); return; }
    if (d == "not_hdf5") { std::ofstream o(p, std::ios::trunc); o << "this is not an hdf5 file\n" << std::string(4096, 'x'); return; }
    if (d == "plain_hdf5") {
        hid_t f = H5Fcreate(p.c_str(), H5F_ACC_TRUNC, H5P_DEFAULT, H5P_DEFAULT);
        hid_t g = H5Gcreate2(f, "something", H5P_DEFAULT, H5P_DEFAULT, H5P_DEFAULT);
        H5Gclose(g); H5Fclose(f); return;
    }
    hid_t f = H5Fopen(p.c_str(), H5F_ACC_RDWR, H5P_DEFAULT);
    hid_t root = H5Gopen2(f, "/", H5P_DEFAULT);
    herr_t e = 0;
    if (d == "no_format") e = H5Adelete(root, "format");
    else if (d == "no_version") e = H5Adelete(root, "version");
    else if (d == "no_id") e = H5Adelete(root, "id");
    else if (d == "bad_format") {
        H5Adelete(root, "format");
        hid_t t = H5Tcopy(H5T_C_S1); H5Tset_size(t, H5T_VARIABLE);
        hid_t s = H5Screate(H5S_SCALAR);
        hid_t a = H5Acreate2(root, "format", t, s, H5P_DEFAULT, H5P_DEFAULT);
        const char *v = "xin"; e = H5Awrite(a, t, &v);
        H5Aclose(a); H5Sclose(s); H5Tclose(t);
    } else throw std::runtime_error("harness: unknown defect " + d);
    H5Gclose(root); H5Fclose(f);
    if (e < 0) throw std::runtime_error("harness: defect injection failed: " + d);
}

nix::FileMode modeOf(const std::string &m) {
    return m == "ro" ? nix::FileMode::ReadOnly : m == "rw" ? nix::FileMode::ReadWrite : nix::FileMode::Overwrite;
}

std::string doStep(Ctx &c, VSession &s, const json &st) {
    std::string a = st["a"];
    const json &g = st["args"];
    std::string p = c.path();
    if (a == "EnvSetVersion") { setVersionAttr(p, g["x"], g["y"], g["z"]); return "ok"; }
    if (a == "EnvDefect") { injectDefect(p, g["d"]); return "ok"; }
    if (a == "Open") {
        bool force = g["force"];
        return outcome([&] {
            nix::File f = nix::File::open(p, modeOf(g["mode"]), "hdf5", nix::Compression::Auto,
                                          force ? nix::OpenFlags::Force : nix::OpenFlags::None);
            if (!f.isOpen()) throw std::runtime_error("open returned a closed file");
            s.f = f; s.open = true;
        });
    }
    if (a == "CreateBlock") {
        std::string name = "b" + std::to_string(g["n"].get<int>());
        return outcome([&] { s.f.createBlock(name, "t"); });
    }
    if (a == "Close") { s.f.close(); s.f = nix::File(); s.open = false; return "ok"; }
    throw std::runtime_error("harness: unknown action " + a);
}

json observe(Ctx &c, VSession &s) {
    json o;
    if (s.open) {
        std::vector<int> v = s.f.version();
        std::string fmt = s.f.format();
        o = {{"exists", fileExists(c.path())}, {"kind", "nix"}, {"fmt", fmt == "nix" ? "nix" : (fmt.empty() ? "missing" : "wrong")},
             {"hasVer", true}, {"hasId", !s.f.id().empty()}, {"vx", v[0]}, {"vy", v[1]}, {"vz", v[2]},
             {"blocks", (long) s.f.blockCount()}};
        // the enumeration must agree with the count
        if ((long) s.f.blocks().size() != o["blocks"].get<long>()) o["blocks"] = -2;
    } else o = diskHeader(c.path());
    o["open"] = s.open;
    return o;
}

json handle(Ctx &c, const json &rec) {
    unlink(c.path().c_str());
    VSession s;
    {   // the model's initial state: a fresh, closed NIX file written by the library
        nix::File f = nix::File::open(c.path(), nix::FileMode::Overwrite);
        f.close();
    }
    for (const auto &st : rec["pre"]) {
        std::string r = doStep(c, s, st);
        if (r != st["res"].get<std::string>())
            return json{{"v", "unjudgeable"}, {"what", "prefix step outcome differs"}, {"step", st}, {"observed", r}};
    }
    const json &st = rec["step"];
    std::string r = doStep(c, s, st);
    json o = observe(c, s);
    json exp = rec["post"];
    json res;
    if (r != st["res"].get<std::string>()) res = mismatch("outcome", st["res"], r);
    else {
        // fields that the model does not define for non-NIX containers are not compared
        if (exp["kind"] != "nix" || !exp["exists"].get<bool>()) { for (auto k : {"fmt", "hasVer", "hasId", "vx", "vy", "vz", "blocks"}) { o.erase(k); exp.erase(k); } }
        if (exp.contains("hasVer") && !exp["hasVer"].get<bool>()) { for (auto k : {"vx", "vy", "vz"}) { o.erase(k); exp.erase(k); } }
        std::string d = firstDiff(exp, o);
        res = d.empty() ? ok() : mismatch("obs:" + d, exp, o);
    }
    if (s.open) { try { s.f.close(); } catch (...) {} }
    return res;
}

Reg reg("version", handle);
}

namespace {
json handleCmp(Ctx &, const json &r) {
    auto tv = [](const json &j) { return nix::FormatVersion(std::vector<int>{j[0], j[1], j[2]}); };
    nix::FormatVersion a = tv(r["a"]), b = tv(r["b"]);
    json o = {{"lt", a < b}, {"eq", a == b}, {"le", a <= b}, {"gt", a > b}, {"ge", a >= b}, {"ne", a != b},
              {"canRead", a.canRead(b)}, {"canWrite", a.canWrite(b)}};
    json e;
    for (auto it = o.begin(); it != o.end(); ++it) e[it.key()] = r[it.key()];
    std::string d = firstDiff(e, o);
    return d.empty() ? ok() : mismatch("cmp:" + d, e, o);
}
Reg regc("version.cmp", handleCmp);
}
