// nixreplay: reads emitted specification lines (one JSON document per line) on stdin, executes each
// against the real library and prints one verdict per line ({"i":n, "v":...}).  The orchestrator
// restarts the process after a crash and attributes the crash to the line that was in flight.
#include "common.hpp"
#include <csignal>
#include <sys/stat.h>

std::map<std::string, Handler> &handlers() { static std::map<std::string, Handler> h; return h; }

std::string firstDiff(const json &a, const json &b, const std::string &at) {
    if (a == b) return "";
    if (a.type() != b.type() && !(a.is_number() && b.is_number())) return at.empty() ? "/" : at;
    if (a.is_object()) {
        for (auto it = a.begin(); it != a.end(); ++it) {
            if (!b.contains(it.key())) return at + "/" + it.key();
            std::string d = firstDiff(it.value(), b[it.key()], at + "/" + it.key());
            if (!d.empty()) return d;
        }
        for (auto it = b.begin(); it != b.end(); ++it)
            if (!a.contains(it.key())) return at + "/" + it.key();
        return at;
    }
    if (a.is_array()) {
        if (a.size() != b.size()) return at + "/#";
        for (size_t i = 0; i < a.size(); i++) {
            std::string d = firstDiff(a[i], b[i], at + "/" + std::to_string(i));
            if (!d.empty()) return d;
        }
        return at;
    }
    return at.empty() ? "/" : at;
}

std::string g_phase;
// HDF5's error stack is not printed; the stack of the most recent failing HDF5 call is kept as text (attached to harness exceptions)
std::string g_h5err;
static herr_t walkCb(unsigned n, const H5E_error2_t *e, void *ud) {
    std::string *o = static_cast<std::string *>(ud);
    *o += "#" + std::to_string(n) + " " + (e->func_name ? e->func_name : "?") + ":" + std::to_string(e->line) + " " + (e->desc ? e->desc : "") + " | ";
    return 0;
}
static herr_t autoCb(hid_t estack, void *) { std::string t; H5Ewalk2(estack, H5E_WALK_UPWARD, walkCb, &t); g_h5err = t.substr(0, 1500); return 0; }
void quietHdf5() { H5Eset_auto2(H5E_DEFAULT, autoCb, nullptr); }

int main(int argc, char **argv) {
    Ctx ctx;
    ctx.work = std::string(getenv("VERIF_BUILD") ? getenv("VERIF_BUILD") : "/verif/.build") + "/work/" + std::to_string(getpid());
    for (int i = 1; i < argc; i++) {
        std::string a = argv[i];
        if (a == "--work" && i + 1 < argc) ctx.work = argv[++i];
        else if (a == "--seed" && i + 1 < argc) ctx.seed = atol(argv[++i]);
        else if (a == "--dict" && i + 1 < argc) ctx.dict = argv[++i];
        else if (a == "--opts" && i + 1 < argc) ctx.opts = json::parse(argv[++i]);
    }
    std::string cmd = "mkdir -p '" + ctx.work + "'";
    if (system(cmd.c_str()) != 0) return 2;
    quietHdf5();
    std::ios::sync_with_stdio(false);
    std::string line;
    long n = 0;
    while (std::getline(std::cin, line)) {
        if (line.empty()) continue;
        json rec, res;
        try { rec = json::parse(line); } catch (...) { std::cout << json{{"i", n}, {"v", "badline"}}.dump() << std::endl; n++; continue; }
        long idx = rec.value("i", n);
        std::string m = rec.value("m", "");
        auto it = handlers().find(m);
        if (it == handlers().end()) res = json{{"v", "nohandler"}, {"m", m}};
        else {
            try { res = it->second(ctx, rec); }
            catch (const std::exception &e) { res = json{{"v", "harness_exception"}, {"what", e.what()}, {"phase", g_phase}, {"h5", g_h5err}}; }
            catch (...) { res = json{{"v", "harness_exception"}, {"what", "unknown"}}; }
        }
        res["i"] = idx;
        std::cout << res.dump(-1, ' ', false, json::error_handler_t::replace) << std::endl;
        n++;
    }
    return 0;
}
