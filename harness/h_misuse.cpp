// Handler "misuse": out-of-contract calls (NixMisuse.tla; C16).  The handler only reports what happened
// ("threw" / "returned"); undefined behaviour shows up as a crash or sanitizer abort of the replayer process.
#include "common.hpp"
#include <limits>
#include <cstring>
#include <memory>
#include <cmath>

#if defined(__SANITIZE_ADDRESS__)
#include <sanitizer/asan_interface.h>
#define VERIF_POISON(p, n) ASAN_POISON_MEMORY_REGION(p, n)
#define VERIF_UNPOISON(p, n) ASAN_UNPOISON_MEMORY_REGION(p, n)
#else
#define VERIF_POISON(p, n) ((void) 0)
#define VERIF_UNPOISON(p, n) ((void) 0)
#endif

namespace {

const size_t GUARD = 32;

struct World {
    nix::File f; nix::Block b; nix::Section s; nix::Property p; nix::Source src; nix::DataArray a, a2, pos; nix::DataFrame df;
    nix::Tag t; nix::MultiTag mt; nix::Group g; nix::Feature ft;
    std::string path;
    void build(Ctx &c) {
        path = c.path("misuse.nix");
        f = nix::File::open(path, nix::FileMode::Overwrite);
        b = f.createBlock("b", "t");
        s = f.createSection("s", "t");
        p = s.createProperty("p", nix::Variant(1.5));
        src = b.createSource("src", "t");
        a = b.createDataArray("a", "t", nix::DataType::Double, nix::NDSize({3, 4}));
        std::vector<double> d(12); for (size_t i = 0; i < 12; i++) d[i] = (double) i;
        a.setData(nix::DataType::Double, d.data(), nix::NDSize({3, 4}), nix::NDSize({0, 0}));
        a.appendSampledDimension(0.5); a.appendRangeDimension({1.0, 2.0, 3.0, 4.0});
        a2 = b.createDataArray("a2", "t", nix::DataType::String, nix::NDSize({2}));
        a2.appendSetDimension({"x", "y"});
        pos = b.createDataArray("pos", "t", nix::DataType::Double, nix::NDSize({2, 2}));
        std::vector<nix::Column> cols = {{"c0", "", nix::DataType::Double}, {"c1", "", nix::DataType::String}};
        df = b.createDataFrame("df", "t", cols); df.rows(2);
        t = b.createTag("t", "t", {0.5, 2.0}); t.extent({0.5, 1.0}); t.addReference(a);
        ft = t.createFeature(a, nix::LinkType::Tagged);
        mt = b.createMultiTag("mt", "t", pos); mt.addReference(a);
        g = b.createGroup("g", "t"); g.addDataArray(a);
    }
};

nix::NDSize nd2(nix::ndsize_t a, nix::ndsize_t b) { nix::NDSize n(2); n[0] = a; n[1] = b; return n; }
template <typename F> void attempt(long &threw, long &returned, F f) {
    try { f(); returned++; } catch (const std::exception &) { threw++; } catch (...) { threw++; }
}

json handle(Ctx &c, const json &rec) {
    const json &cs = rec["c"];
    std::string cl = cs["cl"], kind = cs["kind"], var = cs["variant"];
    World w; w.build(c);
    long threw = 0, returned = 0;
#define TRY(expr) attempt(threw, returned, [&] { expr; })
    const nix::ndsize_t BIG = std::numeric_limits<nix::ndsize_t>::max();
    // transfer buffers live on the heap and have EXACTLY the size the call is entitled to use (count.nelms() elements, one
    // element for an empty count): the sanitizer then sees every byte read or written beyond it
    // Behind each buffer lie 32 guard bytes: poisoned for the sanitizer (instrumented code touching them traps at once) and
    // filled with a pattern that is verified when the case is over (code the sanitizer does not see - libhdf5 - wrote there).
    std::vector<std::pair<std::unique_ptr<char[]>, size_t>> heap;
    auto XB = [&](const nix::NDSize &cnt, size_t esize) -> void * {
        size_t n = 1;
        try { if (cnt.size() > 0) { nix::ndsize_t m = cnt.nelms(); n = (m > 0 && m < 1000000) ? (size_t) m : 1; } } catch (...) { n = 1; }
        heap.emplace_back(std::unique_ptr<char[]>(new char[n * esize + GUARD]), n * esize);
        char *p = heap.back().first.get();
        memset(p, 0, n * esize); memset(p + n * esize, 0xA5, GUARD);
        VERIF_POISON(p + n * esize, GUARD);
        return p;
    };
    struct GuardCheck { std::vector<std::pair<std::unique_ptr<char[]>, size_t>> &h;
        ~GuardCheck() { for (auto &b : h) { char *g = b.first.get() + b.second; VERIF_UNPOISON(g, GUARD);
                            for (size_t i = 0; i < GUARD; i++) if ((unsigned char) g[i] != 0xA5) { fprintf(stderr, "VERIF: bytes behind a transfer buffer of %zu bytes were overwritten (guard byte %zu)\n", b.second, i); abort(); } } } } guardCheck{heap};
    auto B = [&](const nix::NDSize &cnt) -> void * { return XB(cnt, sizeof(double)); };
    if (cl == "uninit") {
        nix::Block b; nix::Section s; nix::Property p; nix::Source src; nix::DataArray a; nix::DataFrame df; nix::Tag t; nix::MultiTag mt; nix::Group g; nix::Feature ft; nix::File f;
        nix::SampledDimension sd; nix::RangeDimension rd; nix::SetDimension setd; nix::Dimension dim;
        bool get = var == "getter", mut = var == "mutator";
        if (kind == "block") { if (get) { TRY(b.name()); TRY(b.dataArrayCount()); TRY(b.id()); } else if (mut) { TRY(b.createTag("x", "t", {1.0})); TRY(b.definition("d")); } else { TRY(w.f.hasBlock(b)); TRY(w.f.deleteBlock(b)); } }
        else if (kind == "section") { if (get) { TRY(s.name()); TRY(s.sections()); } else if (mut) { TRY(s.createProperty("x", nix::Variant(1))); TRY(s.link(w.s)); } else { TRY(w.b.metadata(s)); TRY(w.s.link(s)); TRY(w.f.deleteSection(s)); } }
        else if (kind == "prop") { if (get) { TRY(p.values()); TRY(p.name()); } else if (mut) { TRY(p.values(std::vector<nix::Variant>{nix::Variant(1.0)})); TRY(p.unit("mV")); } else { TRY(w.s.hasProperty(p)); TRY(w.s.deleteProperty(p)); } }
        else if (kind == "source") { if (get) { TRY(src.name()); TRY(src.sources()); } else if (mut) { TRY(src.createSource("x", "t")); } else { TRY(w.a.addSource(src)); TRY(w.a.hasSource(src)); TRY(w.b.deleteSource(src)); } }
        else if (kind == "array") { if (get) { TRY(a.dataExtent()); TRY(a.dimensions()); double x; TRY(a.getData(nix::DataType::Double, &x, nix::NDSize({1}), nix::NDSize({0}))); }
                                    else if (mut) { TRY(a.appendSetDimension()); TRY(a.dataExtent(nix::NDSize({2}))); } else { TRY(w.t.addReference(a)); TRY(w.t.createFeature(a, nix::LinkType::Tagged)); TRY(w.mt.positions(a)); TRY(w.g.addDataArray(a)); TRY(nix::util::taggedData(w.t, a)); TRY(w.b.createMultiTag("m2", "t", a)); } }
        else if (kind == "frame") { if (get) { TRY(df.rows()); TRY(df.columns()); TRY(df.readRow(0)); } else if (mut) { TRY(df.rows(3)); } else { TRY(w.a2.appendDataFrameDimension(df)); TRY(w.g.addDataFrame(df)); } }
        else if (kind == "tag") { if (get) { TRY(t.position()); TRY(t.references()); TRY(t.taggedData((size_t) 0)); } else if (mut) { TRY(t.addReference(w.a)); TRY(t.position({1.0})); } else { TRY(w.g.addTag(t)); TRY(w.b.deleteTag(t)); TRY(nix::util::taggedData(t, w.a)); } }
        else if (kind == "mtag") { if (get) { TRY(mt.positions()); TRY(mt.taggedData((size_t) 0, (size_t) 0)); } else if (mut) { TRY(mt.extents(w.pos)); } else { TRY(w.g.addMultiTag(mt)); TRY(nix::util::taggedData(mt, (nix::ndsize_t) 0, w.a)); } }
        else if (kind == "group") { if (get) { TRY(g.dataArrays()); } else if (mut) { TRY(g.addDataArray(w.a)); } else { TRY(w.b.hasGroup(g)); TRY(w.b.deleteGroup(g)); } }
        else if (kind == "feature") { if (get) { TRY(ft.data()); TRY(ft.linkType()); } else if (mut) { TRY(ft.data(w.a)); } else { TRY(w.t.hasFeature(ft)); TRY(w.t.deleteFeature(ft)); TRY(nix::util::featureData(w.t, ft)); } }
        else if (kind == "file") { if (get) { TRY(f.blockCount()); TRY(f.isOpen()); TRY(f.version()); } else if (mut) { TRY(f.createBlock("x", "t")); TRY(f.flush()); } else { TRY(f.close()); } }
        else if (kind == "dim") { if (get) { TRY(sd.samplingInterval()); TRY(rd.ticks()); TRY(setd.labels()); TRY(dim.dimensionType()); TRY(sd.indexOf(1.0, nix::PositionMatch::Equal)); } else { TRY(sd.samplingInterval(1.0)); TRY(rd.ticks({1.0})); TRY(setd.labels({"a"})); TRY(dim.asRangeDimension()); } }
        else if (kind == "view") { TRY(nix::DataView dv(a, nix::NDSize({1}), nix::NDSize({0}))); }
    } else if (cl == "stale") {
        // handles to entities that were deleted afterwards
        nix::DataArray a = w.a; nix::Tag t = w.t; nix::MultiTag mt = w.mt; nix::Group g = w.g; nix::Source src = w.src; nix::Section s = w.s; nix::Property p = w.p; nix::DataFrame df = w.df; nix::Feature ft = w.ft; nix::Block b = w.b;
        nix::Dimension dim = w.a.getDimension(1); nix::SampledDimension sd = dim.asSampledDimension();
        bool get = var == "getter", mut = var == "mutator";
        if (kind == "array") { w.b.deleteDataArray(w.a); if (get) { TRY(a.name()); TRY(a.dataExtent()); double x[12]; TRY(a.getData(nix::DataType::Double, x, nix::NDSize({3, 4}), nix::NDSize({0, 0}))); TRY(a.dimensions()); } else if (mut) { TRY(a.label("l")); TRY(a.appendSetDimension()); TRY(a.dataExtent(nix::NDSize({5, 5}))); } else { TRY(t.taggedData((size_t) 0)); TRY(nix::util::taggedData(t, a)); TRY(t.featureData((size_t) 0)); TRY(mt.taggedData((size_t) 0, (size_t) 0)); TRY(w.b.getTag("t").addReference(a)); } }
        else if (kind == "tag") { w.b.deleteTag(w.t); if (get) { TRY(t.position()); TRY(t.references()); TRY(t.taggedData((size_t) 0)); TRY(t.features()); } else if (mut) { TRY(t.addReference(w.a)); TRY(t.createFeature(w.a, nix::LinkType::Tagged)); } else { TRY(w.g.addTag(t)); TRY(ft.data()); TRY(nix::util::featureData(t, ft)); } }
        else if (kind == "mtag") { w.b.deleteMultiTag(w.mt); if (get) { TRY(mt.positions()); TRY(mt.taggedData((size_t) 0, (size_t) 0)); } else if (mut) { TRY(mt.addReference(w.a)); } else { TRY(w.g.addMultiTag(mt)); } }
        else if (kind == "group") { w.b.deleteGroup(w.g); if (get) { TRY(g.dataArrays()); TRY(g.name()); } else if (mut) { TRY(g.addDataArray(w.a)); } else { TRY(w.b.hasGroup(g)); } }
        else if (kind == "source") { w.a.addSource(w.src); w.b.deleteSource(w.src); if (get) { TRY(src.name()); TRY(src.referringDataArrays()); } else if (mut) { TRY(src.createSource("x", "t")); } else { TRY(w.a.sources()); TRY(w.a.addSource(src)); TRY(w.a.removeSource(src)); } }
        else if (kind == "section") { w.b.metadata(w.s); w.f.deleteSection(w.s); if (get) { TRY(s.name()); TRY(s.properties()); TRY(p.values()); } else if (mut) { TRY(s.createProperty("q", nix::Variant(1))); TRY(p.values(std::vector<nix::Variant>{nix::Variant(2.5)})); } else { TRY(w.b.metadata()); TRY(w.b.metadata(s)); } }
        else if (kind == "prop") { w.s.deleteProperty(w.p); if (get) { TRY(p.values()); TRY(p.name()); TRY(p.valueCount()); } else if (mut) { TRY(p.values(std::vector<nix::Variant>{nix::Variant(2.5)})); TRY(p.deleteValues()); } else { TRY(w.s.hasProperty(p)); TRY(w.s.inheritedProperties()); } }
        else if (kind == "frame") { w.a2.appendDataFrameDimension(w.df); w.b.deleteDataFrame(w.df); if (get) { TRY(df.rows()); TRY(df.readRow(0)); } else if (mut) { TRY(df.rows(5)); TRY(df.writeCell(0, 0u, nix::Variant(1.0))); } else { TRY(w.a2.dimensions()); TRY(w.a2.getDimension(2).asDataFrameDimension().data()); TRY(w.a2.getDimension(2).asDataFrameDimension().size()); TRY(w.f.validate()); } }
        else if (kind == "feature") { w.t.deleteFeature(w.ft); if (get) { TRY(ft.data()); TRY(ft.linkType()); } else if (mut) { TRY(ft.data(w.a)); TRY(ft.linkType(nix::LinkType::Indexed)); } else { TRY(nix::util::featureData(w.t, ft)); TRY(w.t.featureData((size_t) 0)); } }
        else if (kind == "block") { w.f.deleteBlock(w.b); if (get) { TRY(b.name()); TRY(b.dataArrays()); TRY(a.dataExtent()); TRY(t.taggedData((size_t) 0)); } else if (mut) { TRY(b.createDataArray("z", "t", nix::DataType::Double, nix::NDSize({1}))); TRY(a.label("x")); } else { TRY(w.f.hasBlock(b)); TRY(w.f.validate()); } }
        else if (kind == "dim") { w.a.deleteDimensions(); if (get) { TRY(sd.samplingInterval()); TRY(sd.positionAt(1)); TRY(dim.dimensionType()); TRY(dim.index()); } else if (mut) { TRY(sd.samplingInterval(2.0)); TRY(sd.unit("ms")); } else { TRY(nix::util::taggedData(w.t, w.a)); TRY(w.t.taggedData((size_t) 0)); } }
    } else if (cl == "closed") {
        nix::DataArray a = w.a; nix::Tag t = w.t; nix::MultiTag mt = w.mt; nix::Group g = w.g; nix::Source src = w.src; nix::Section s = w.s; nix::Property p = w.p; nix::DataFrame df = w.df; nix::Feature ft = w.ft; nix::Block b = w.b; nix::File f = w.f;
        nix::SampledDimension sd = w.a.getDimension(1).asSampledDimension();
        nix::DataView dv = nix::util::taggedData(w.t, w.a);
        w.f.close();
        bool get = var == "getter";
        if (kind == "block") { if (get) { TRY(b.name()); TRY(b.dataArrays()); } else TRY(b.createGroup("x", "t")); }
        else if (kind == "section") { if (get) { TRY(s.properties()); } else TRY(s.createSection("x", "t")); }
        else if (kind == "prop") { if (get) { TRY(p.values()); } else TRY(p.values(std::vector<nix::Variant>{nix::Variant(1.0)})); }
        else if (kind == "source") { if (get) { TRY(src.sources()); } else TRY(src.createSource("x", "t")); }
        else if (kind == "array") { if (get) { double x[12]; TRY(a.getData(nix::DataType::Double, x, nix::NDSize({3, 4}), nix::NDSize({0, 0}))); TRY(dv.getData(nix::DataType::Double, x, nix::NDSize({1, 1}), nix::NDSize({0, 0}))); } else { double x = 1; TRY(a.setData(nix::DataType::Double, &x, nix::NDSize({1, 1}), nix::NDSize({0, 0}))); TRY(a.dataExtent(nix::NDSize({9, 9}))); } }
        else if (kind == "frame") { if (get) { TRY(df.readRow(0)); } else TRY(df.rows(9)); }
        else if (kind == "tag") { if (get) { TRY(t.taggedData((size_t) 0)); TRY(t.position()); } else TRY(t.position({2.0})); }
        else if (kind == "mtag") { if (get) { TRY(mt.taggedData((size_t) 0, (size_t) 0)); } else TRY(mt.addReference(a)); }
        else if (kind == "group") { if (get) { TRY(g.dataArrays()); } else TRY(g.addDataArray(a)); }
        else if (kind == "feature") { if (get) { TRY(ft.data()); } else TRY(ft.linkType(nix::LinkType::Indexed)); }
        else if (kind == "file") { if (get) { TRY(f.blockCount()); TRY(f.isOpen()); } else { TRY(f.createBlock("x", "t")); TRY(f.flush()); TRY(f.close()); } }
        else if (kind == "dim") { if (get) { TRY(sd.samplingInterval()); TRY(sd.axis(3)); } else TRY(sd.samplingInterval(3.0)); }
    } else if (cl == "index_past") {
        auto idx = [&](nix::ndsize_t count) -> nix::ndsize_t { return var == "count" ? count : var == "count+1" ? count + 1 : BIG; };
        if (kind == "file") { TRY(w.f.getBlock(idx(w.f.blockCount()))); TRY(w.f.getSection(idx(w.f.sectionCount()))); }
        else if (kind == "block") { TRY(w.b.getDataArray(idx(w.b.dataArrayCount()))); TRY(w.b.getTag(idx(w.b.tagCount()))); TRY(w.b.getMultiTag(idx(w.b.multiTagCount()))); TRY(w.b.getGroup(idx(w.b.groupCount()))); TRY(w.b.getSource(idx(w.b.sourceCount()))); TRY(w.b.getDataFrame(idx(w.b.dataFrameCount()))); }
        else if (kind == "section") { TRY(w.s.getSection(idx(w.s.sectionCount()))); TRY(w.s.getProperty(idx(w.s.propertyCount()))); }
        else if (kind == "source") { TRY(w.src.getSource(idx(w.src.sourceCount()))); }
        else if (kind == "array") { TRY(w.a.getSource((size_t) idx(w.a.sourceCount()))); TRY(w.a.getDimension(idx(w.a.dimensionCount()) + 1)); TRY(w.a.getDimension(0)); }
        else if (kind == "dim") { nix::RangeDimension rd = w.a.getDimension(2).asRangeDimension(); TRY(rd.tickAt(idx(4))); TRY(rd.axis(2, idx(4))); TRY(rd.axis(idx(4), 0)); nix::SampledDimension sd = w.a.getDimension(1).asSampledDimension(); TRY(sd.positionAt(BIG)); if (var != "max") TRY(sd.axis(idx(3), 1));
            // a data-frame dimension whose column index is the number of columns (or beyond): appending may throw or not, every getter
            // and a slice through the dimension must then throw or return
            try {
                nix::DataArray x = w.b.createDataArray("dfdim", "t", nix::DataType::Double, nix::NDSize({2}));
                nix::DataFrameDimension fd = x.appendDataFrameDimension(w.df, (unsigned) idx(w.df.columns().size()));
                TRY(fd.unit()); TRY(fd.label()); TRY(fd.columnDataType()); TRY(fd.size()); TRY(fd.columnIndex());
                TRY(fd.indexOf(0.0, nix::PositionMatch::GreaterOrEqual));
                TRY(nix::util::dataSlice(x, {0.0}, {1.0}));
                nix::Dimension gd = x.getDimension(1); TRY(gd.asDataFrameDimension().unit());
            } catch (const std::exception &) {} }
        else if (kind == "frame") { TRY(w.df.readRow(idx(w.df.rows()))); TRY(w.df.readCell(idx(w.df.rows()), 0u)); TRY(w.df.readCell(0, (unsigned) idx(2))); TRY(w.df.colName((unsigned) idx(2))); std::vector<double> v; TRY(w.df.readColumn((unsigned) 0, v, true, idx(w.df.rows()) + 1)); }
        else if (kind == "tag") { TRY(w.t.getReference((size_t) idx(w.t.referenceCount()))); TRY(w.t.getFeature(idx(w.t.featureCount()))); TRY(w.t.taggedData((size_t) idx(w.t.referenceCount()))); TRY(w.t.featureData((size_t) idx(w.t.featureCount()))); TRY(nix::util::featureData(w.t, idx(w.t.featureCount()))); }
        else if (kind == "mtag") { TRY(w.mt.getReference((size_t) idx(w.mt.referenceCount()))); TRY(w.mt.taggedData((size_t) idx(2), (size_t) 0)); TRY(w.mt.taggedData((size_t) 0, (size_t) idx(1))); std::vector<nix::ndsize_t> ii = {0, idx(2)}; TRY(nix::util::taggedData(w.mt, ii, w.a)); TRY(nix::util::featureData(w.mt, idx(2), (nix::ndsize_t) 0)); }
        else if (kind == "group") { TRY(w.g.getDataArray((size_t) idx(w.g.dataArrayCount()))); TRY(w.g.getTag((size_t) idx(w.g.tagCount()))); }
        else if (kind == "prop") { TRY(w.s.getProperty(idx(1))); }
        else if (kind == "feature") { TRY(w.t.getFeature(idx(1))); }
    } else if (cl == "wrong_rank") {
        nix::DataView dv = nix::util::taggedData(w.t, w.a);
        nix::NDSize lo({1}), hi({1, 1, 1}), none;
        if (kind == "array") {
            if (var == "lower-read") { TRY(w.a.getData(nix::DataType::Double, B(lo), lo, lo)); TRY(w.a.getData(nix::DataType::Double, B(nix::NDSize({1, 1})), nix::NDSize({1, 1}), lo)); TRY(w.a.getData(nix::DataType::Double, B(lo), lo, nix::NDSize({0, 0}))); }
            else if (var == "higher-read") { TRY(w.a.getData(nix::DataType::Double, B(hi), hi, nix::NDSize({0, 0, 0}))); TRY(w.a.getData(nix::DataType::Double, B(nix::NDSize({1, 1})), nix::NDSize({1, 1}), nix::NDSize({0, 0, 0}))); }
            else if (var == "lower-write") { TRY(w.a.setData(nix::DataType::Double, B(lo), lo, lo)); TRY(w.a.setData(nix::DataType::Double, B(nix::NDSize({1, 1})), nix::NDSize({1, 1}), lo)); TRY(w.a.dataExtent(nix::NDSize({5}))); }
            else if (var == "higher-write") { TRY(w.a.setData(nix::DataType::Double, B(hi), hi, nix::NDSize({0, 0, 0}))); TRY(w.a.dataExtent(nix::NDSize({2, 2, 2}))); TRY(w.a.appendData(nix::DataType::Double, B(nix::NDSize({1, 4, 1})), nix::NDSize({1, 4, 1}), 0)); TRY(w.a.appendData(nix::DataType::Double, B(nix::NDSize({1, 4})), nix::NDSize({1, 4}), 5)); }
            else { TRY(w.a.getData(nix::DataType::Double, B(none), none, none)); TRY(w.a.getData(nix::DataType::Double, B(nix::NDSize({1, 1})), nix::NDSize({1, 1}), none)); std::vector<double> v; TRY(w.a.getData(v)); }
        } else {
            if (var == "lower-read") { TRY(dv.getData(nix::DataType::Double, B(lo), lo, lo)); }
            else if (var == "higher-read") { TRY(dv.getData(nix::DataType::Double, B(hi), hi, nix::NDSize({0, 0, 0}))); }
            else if (var == "lower-write") { TRY(dv.setData(nix::DataType::Double, B(lo), lo, lo)); TRY(nix::DataView bad(w.a, lo, lo)); }
            else if (var == "higher-write") { TRY(dv.setData(nix::DataType::Double, B(hi), hi, nix::NDSize({0, 0, 0}))); TRY(nix::DataView bad(w.a, hi, nix::NDSize({0, 0, 0}))); }
            else { TRY(dv.getData(nix::DataType::Double, B(dv.dataExtent()), none, none)); TRY(dv.dataExtent(nix::NDSize({1, 1}))); }
        }
    } else if (cl == "io_shape") {
        // raw data I/O with the count and / or offset vector left empty (or minimal), on the array as it is and under every
        // calibration setting, for every element type; every buffer has exactly the size the call may use
        static const nix::DataType TY[] = {nix::DataType::Double, nix::DataType::Float, nix::DataType::Int64, nix::DataType::Int32, nix::DataType::Int16, nix::DataType::UInt8, nix::DataType::Int8, nix::DataType::UInt64};
        nix::NDSize none, off11({1, 1}), off00({0, 0}), ones({1, 1}), whole({3, 4}), row({1, 4}), win({2, 3});
        for (int cal = 0; cal < 4; cal++) {
            if (cal & 1) w.a.polynomCoefficients(std::vector<double>{1.0, 2.0, 0.5}); else w.a.polynomCoefficients(nix::none);
            if (cal & 2) w.a.expansionOrigin(1.5); else w.a.expansionOrigin(nix::none);
            nix::DataView dv(w.a, win, nix::NDSize({1, 1}));
            for (nix::DataType ty : TY) {
                size_t es = nix::data_type_to_size(ty);
                auto rd = [&](const nix::NDSize &cn, const nix::NDSize &of) {
                    if (kind == "array") { TRY(w.a.getData(ty, XB(cn, es), cn, of)); TRY(w.a.getDataDirect(ty, XB(cn, es), cn, of)); }
                    else TRY(dv.getData(ty, XB(cn ? cn : win, es), cn, of)); };       // a view reads its whole window for an empty count
                auto wr = [&](const nix::NDSize &cn, const nix::NDSize &of) {
                    if (kind == "array") { TRY(w.a.setData(ty, XB(cn, es), cn, of)); } else TRY(dv.setData(ty, XB(cn ? cn : win, es), cn, of)); };
                if (var == "empty-count") { rd(none, off11); rd(none, off00); wr(none, off11); rd(none, nix::NDSize({2, 3})); }
                else if (var == "empty-offset") { rd(ones, none); rd(row, none); wr(ones, none); }
                else if (var == "both-empty") { rd(none, none); wr(none, none); }
                else if (var == "ones") { rd(ones, off11); wr(ones, off11); rd(ones, nix::NDSize({2, 3})); rd(nix::NDSize({1}), nix::NDSize({1})); }
                else { if (kind == "array") { rd(whole, off00); wr(whole, off00); } else { rd(nix::NDSize({2, 3}), off00); wr(nix::NDSize({2, 3}), off00); } rd(row, off11); }
            }
        }
    } else if (cl == "outside") {
        nix::DataView dv = nix::util::taggedData(w.t, w.a);
        if (kind == "array") {
            if (var == "offset") { TRY(w.a.getData(nix::DataType::Double, B(nix::NDSize({1, 1})), nix::NDSize({1, 1}), nix::NDSize({3, 0}))); TRY(w.a.setData(nix::DataType::Double, B(nix::NDSize({1, 1})), nix::NDSize({1, 1}), nix::NDSize({0, 4}))); }
            else if (var == "count") { TRY(w.a.getData(nix::DataType::Double, B(nix::NDSize({4, 4})), nix::NDSize({4, 4}), nix::NDSize({0, 0}))); TRY(w.a.setData(nix::DataType::Double, B(nix::NDSize({3, 5})), nix::NDSize({3, 5}), nix::NDSize({0, 0}))); }
            else if (var == "huge") { TRY(w.a.getData(nix::DataType::Double, B(nix::NDSize({1, 1})), nix::NDSize({1, 1}), nd2(BIG, 0))); TRY(w.a.getData(nix::DataType::Double, B(nd2(BIG, BIG)), nd2(BIG, BIG), nix::NDSize({0, 0}))); TRY(w.a.dataExtent(nd2(BIG, BIG))); }
            else { TRY(w.a.getData(nix::DataType::Double, B(nix::NDSize({0, 0})), nix::NDSize({0, 0}), nix::NDSize({0, 0}))); TRY(w.a.setData(nix::DataType::Double, B(nix::NDSize({0, 1})), nix::NDSize({0, 1}), nix::NDSize({0, 0}))); TRY(w.a.dataExtent(nix::NDSize({0, 0}))); TRY(w.a.getData(nix::DataType::Double, B(nix::NDSize({1, 1})), nix::NDSize({1, 1}), nix::NDSize({0, 0}))); }
        } else if (kind == "view") {
            if (var == "offset") { TRY(dv.getData(nix::DataType::Double, B(nix::NDSize({1, 1})), nix::NDSize({1, 1}), nix::NDSize({5, 5}))); TRY(nix::DataView bad(w.a, nix::NDSize({1, 1}), nix::NDSize({3, 4}))); }
            else if (var == "count") { TRY(dv.getData(nix::DataType::Double, B(nix::NDSize({3, 4})), nix::NDSize({3, 4}), nix::NDSize({0, 0}))); TRY(nix::DataView bad(w.a, nix::NDSize({4, 5}), nix::NDSize({0, 0}))); }
            else if (var == "huge") { TRY(dv.getData(nix::DataType::Double, B(nd2(BIG, BIG)), nd2(BIG, BIG), nix::NDSize({1, 1}))); TRY(nix::DataView bad(w.a, nix::NDSize({2, 2}), nd2(BIG, BIG))); }
            else { TRY(dv.getData(nix::DataType::Double, B(nix::NDSize({0, 0})), nix::NDSize({0, 0}), nix::NDSize({0, 0}))); TRY(nix::DataView z(w.a, nix::NDSize({0, 0}), nix::NDSize({0, 0}))); }
        } else {
            std::vector<double> v(8, 1.0);
            if (var == "offset") { TRY(w.df.writeColumn((unsigned) 0, v, 5, 1)); TRY(w.df.writeRow(5, {nix::Variant(1.0), nix::Variant(std::string("x"))})); }
            else if (var == "count") { TRY(w.df.writeColumn((unsigned) 0, v, 0, 8)); TRY(w.df.writeColumn((unsigned) 0, v, 0, 9)); std::vector<double> r(1); TRY(w.df.readColumn((unsigned) 0, r, (size_t) 5, false, 0)); }
            else if (var == "huge") { TRY(w.df.writeColumn((unsigned) 0, v, BIG, 1)); TRY(w.df.rows(BIG)); TRY(w.df.readRow(BIG)); }
            else { std::vector<double> e; TRY(w.df.writeColumn((unsigned) 0, e, 0, 0)); TRY(w.df.rows(0)); TRY(w.df.readRow(0)); std::vector<std::string> sv; TRY(w.df.readColumn((unsigned) 1, sv, true, 0)); }
        }
    } else if (cl == "empty") {
        if (kind == "tag") { nix::Tag e = w.b.createTag("empty", "t", {}); if (var == "retrieve") { TRY(e.taggedData((size_t) 0)); TRY(nix::util::taggedData(e, w.a)); } else if (var == "feature") { TRY(e.featureData((size_t) 0)); TRY(nix::util::featureData(e, (nix::ndsize_t) 0)); } else if (var == "read") { TRY(e.position()); TRY(e.extent()); TRY(e.units()); } else { TRY(e.getReference((size_t) 0)); TRY(e.getFeature((nix::ndsize_t) 0)); } }
        else if (kind == "mtag") { nix::DataArray ep = w.b.createDataArray("ep", "t", nix::DataType::Double, nix::NDSize({0, 2})); nix::MultiTag e = w.b.createMultiTag("emt", "t", ep); e.addReference(w.a);
            if (var == "retrieve") { TRY(e.taggedData((size_t) 0, (size_t) 0)); std::vector<nix::ndsize_t> none; TRY(nix::util::taggedData(e, none, w.a)); } else if (var == "feature") { TRY(e.featureData((size_t) 0, (size_t) 0)); nix::Feature fi = e.createFeature(w.a, nix::LinkType::Indexed); nix::Feature fu = e.createFeature(w.a2, nix::LinkType::Untagged); nix::Feature ftg = e.createFeature(w.pos, nix::LinkType::Tagged);
                std::vector<nix::ndsize_t> none; TRY(nix::util::featureData(e, none, fi)); TRY(nix::util::featureData(e, none, fu)); TRY(nix::util::featureData(e, none, ftg)); TRY(nix::util::featureData(e, none, (nix::ndsize_t) 0)); } else if (var == "read") { TRY(e.positionCount()); TRY(e.extents()); } else { std::vector<nix::ndsize_t> z = {0}; TRY(nix::util::taggedData(e, z, w.a)); } }
        else if (kind == "array") { nix::DataArray e = w.b.createDataArray("e0", "t", nix::DataType::Double, nix::NDSize({0})); double x;
            if (var == "retrieve") { e.appendSampledDimension(1.0); nix::Tag te = w.b.createTag("te", "t", {0.0}); te.addReference(e); TRY(te.taggedData((size_t) 0)); TRY(nix::util::dataSlice(e, {0.0}, {1.0})); }
            else if (var == "read") { std::vector<double> v; TRY(e.getData(v)); TRY(e.getData(nix::DataType::Double, &x, nix::NDSize({1}), nix::NDSize({0}))); } else if (var == "feature") { TRY(w.t.createFeature(e, nix::LinkType::Indexed)); TRY(w.t.featureData((size_t) 1)); } else { TRY(e.getDimension(1)); TRY(e.appendAliasRangeDimension()); TRY(e.getDimension(1).asRangeDimension().ticks()); } }
        else if (kind == "frame") { std::vector<nix::Column> nocols; if (var == "read") { TRY(w.b.createDataFrame("nc", "t", nocols)); } else if (var == "retrieve") { nix::DataFrame e = w.b.createDataFrame("e1", "t", {{"c", "", nix::DataType::String}}); TRY(e.readRow(0)); std::vector<std::string> sv; TRY(e.readColumn((unsigned) 0, sv, true, 0)); }
            else if (var == "feature") { nix::DataFrame e = w.b.createDataFrame("e2", "t", {{"c", "", nix::DataType::Double}}); TRY(w.a2.appendDataFrameDimension(e, 0u)); TRY(w.a2.getDimension(2).asDataFrameDimension().indexOf(0.0, nix::PositionMatch::GreaterOrEqual)); } else { TRY(w.df.readCells(0, {})); TRY(w.df.writeCells(0, {})); } }
        else if (kind == "section") { if (var == "read") { TRY(w.s.findSections()); TRY(w.s.findRelated()); TRY(w.s.inheritedProperties()); } else if (var == "index0") { TRY(w.s.getSection((nix::ndsize_t) 0)); } else if (var == "retrieve") { TRY(w.s.referringDataArrays()); TRY(w.s.referringBlocks()); } else { TRY(w.s.link()); TRY(w.s.parent()); } }
        else if (kind == "prop") { nix::Property e = w.s.createProperty("e", nix::DataType::String); if (var == "read") { TRY(e.values()); TRY(e.valueCount()); } else if (var == "index0") { TRY(e.deleteValues()); TRY(e.values()); } else if (var == "retrieve") { TRY(w.s.createProperty("v0", std::vector<nix::Variant>{})); } else { TRY(e.values(std::vector<nix::Variant>{})); TRY(e.values()); } }
    } else if (cl == "badarg") {
        double nan = std::numeric_limits<double>::quiet_NaN(), inf = std::numeric_limits<double>::infinity();
        double val = var == "nan" ? nan : var == "inf" ? inf : var == "negative" ? -1e300 : 1.0;
        if (kind == "array") {
            nix::SampledDimension sd = w.a.getDimension(1).asSampledDimension(); nix::RangeDimension rd = w.a.getDimension(2).asRangeDimension();
            if (var == "hugevec") { std::vector<double> big(100000, 1.0); for (size_t i = 0; i < big.size(); i++) big[i] = (double) i; TRY(rd.ticks(big)); TRY(rd.indexOf(5e4, nix::PositionMatch::Equal)); }
            else if (var == "emptyvec") { TRY(rd.ticks(std::vector<double>{})); TRY(rd.indexOf(1.0, nix::PositionMatch::Equal)); TRY(rd.tickAt(0)); TRY(nix::util::dataSlice(w.a, {}, {})); TRY(nix::util::dataSlice(w.a, {0.0, 1.0, 2.0}, {1.0, 2.0, 3.0})); }
            else { TRY(sd.indexOf(val, nix::PositionMatch::GreaterOrEqual)); TRY(sd.indexOf(val, nix::PositionMatch::Less)); TRY(sd.indexOf(val, -val, nix::RangeMatch::Inclusive)); TRY(rd.indexOf(val, nix::PositionMatch::Equal)); TRY(sd.samplingInterval(val)); TRY(sd.offset(val)); TRY(sd.positionAt(3)); TRY(nix::util::dataSlice(w.a, {val, val}, {val, val})); TRY(w.a.expansionOrigin(val)); TRY(w.a.polynomCoefficients({val, val})); double x[12]; TRY(w.a.getData(nix::DataType::Double, x, nix::NDSize({3, 4}), nix::NDSize({0, 0}))); int32_t xi[12]; TRY(w.a.getData(nix::DataType::Int32, xi, nix::NDSize({3, 4}), nix::NDSize({0, 0}))); }
        } else if (kind == "tag") {
            if (var == "hugevec") { std::vector<double> big(10000, 1.0); TRY(w.t.position(big)); TRY(w.t.extent(big)); TRY(w.t.taggedData((size_t) 0)); }
            else if (var == "emptyvec") { TRY(w.t.position(std::vector<double>{})); TRY(w.t.taggedData((size_t) 0)); TRY(w.t.units(std::vector<std::string>{})); }
            else { TRY(w.t.position({val, val})); TRY(w.t.taggedData((size_t) 0)); TRY(w.t.extent({val, val})); TRY(w.t.taggedData((size_t) 0)); TRY(w.t.units({"ms", "mV", "s", "kg"})); TRY(w.t.taggedData((size_t) 0)); }
        } else if (kind == "mtag") {
            std::vector<double> pv = {val, val, val, val};
            w.pos.setData(nix::DataType::Double, pv.data(), nix::NDSize({2, 2}), nix::NDSize({0, 0}));
            if (var == "hugevec") { std::vector<nix::ndsize_t> ii(5000, 0); TRY(nix::util::taggedData(w.mt, ii, w.a)); } else if (var == "emptyvec") { std::vector<nix::ndsize_t> ii; TRY(nix::util::taggedData(w.mt, ii, w.a)); TRY(w.mt.units(std::vector<std::string>{})); }
            else { TRY(w.mt.taggedData((size_t) 0, (size_t) 0)); TRY(w.mt.taggedData((size_t) 1, (size_t) 0)); nix::DataArray ex = w.b.createDataArray("ex", "t", nix::DataType::Double, nix::NDSize({2, 2})); ex.setData(nix::DataType::Double, pv.data(), nix::NDSize({2, 2}), nix::NDSize({0, 0})); TRY(w.mt.extents(ex)); TRY(w.mt.taggedData((size_t) 0, (size_t) 0)); }
        } else if (kind == "frame") {
            if (var == "hugevec") { std::vector<double> big(100000, 2.0); TRY(w.df.rows(100000)); TRY(w.df.writeColumn((unsigned) 0, big)); std::vector<double> back; TRY(w.df.readColumn((unsigned) 0, back, true, 0)); }
            else if (var == "emptyvec") { TRY(w.df.writeRow(0, {})); TRY(w.df.writeRow(0, {nix::Variant(1.0)})); TRY(w.df.writeRow(0, {nix::Variant(1.0), nix::Variant(std::string("a")), nix::Variant(2.0)})); }
            else { TRY(w.df.writeCell(0, 0u, nix::Variant(val))); TRY(w.df.readRow(0)); TRY(w.df.writeCell(0, 1u, nix::Variant(val))); TRY(w.df.writeRow(0, {nix::Variant(std::string("wrong type")), nix::Variant(1.0)})); TRY(w.df.readRow(0)); }
        } else if (kind == "prop") {
            if (var == "hugevec") { std::vector<nix::Variant> big(20000, nix::Variant(1.0)); TRY(w.p.values(big)); TRY(w.p.values()); } else if (var == "emptyvec") { TRY(w.p.values(std::vector<nix::Variant>{})); TRY(w.p.values()); }
            else { TRY(w.p.values(std::vector<nix::Variant>{nix::Variant(val)})); TRY(w.p.values()); TRY(w.p.uncertainty(val)); TRY(w.p.uncertainty()); }
        }
    }
#undef TRY
    try { if (w.f.isOpen()) w.f.close(); } catch (...) {}
    json r = ok();
    r["threw"] = threw; r["returned"] = returned; r["n"] = threw + returned;
    // a class predicted to throw that returns is reported (not a violation of C16 by itself: success is allowed)
    if (cs["outcome"] == "throws" && returned > 0) r["returned_instead_of_throwing"] = returned;
    return r;
}
Reg reg("misuse", handle);
}
