// Shared pieces of the conformance harness: JSON I/O, outcome classification, work dir.
#pragma once
#include <nlohmann/json.hpp>
#include <nix.hpp>
#include <nix/util/dataAccess.hpp>
#include <nix/util/util.hpp>
#include <hdf5.h>
#include <string>
#include <vector>
#include <map>
#include <functional>
#include <iostream>
#include <sstream>
#include <cstdio>
#include <unistd.h>

using json = nlohmann::json;

struct Ctx {
    std::string work;      // private scratch directory of this replayer process
    long seed = 0;         // VERIF_SEED: selects concretisation dictionaries
    std::string dict;      // optional dictionary override
    json opts = json::object();   // free-form options from the orchestrator
    std::string path(const std::string &n = "f.nix") const { return work + "/" + n; }
};

// A handler executes one emitted line and returns a verdict record:
//   {"v":"ok"} | {"v":"mismatch","what":...,"expected":...,"observed":...} | {"v":"unjudgeable",...}
using Handler = std::function<json(Ctx &, const json &)>;
std::map<std::string, Handler> &handlers();
struct Reg { Reg(const std::string &n, Handler h) { handlers()[n] = h; } };

// Outcome class of a call: "ok" (returned), "false" (returned false), "reject" (threw a C++ exception)
template <typename F> std::string outcome(F f, std::string *what = nullptr) {
    try { f(); return "ok"; }
    catch (const std::exception &e) { if (what) *what = e.what(); return "reject"; }
    catch (...) { if (what) *what = "non-std exception"; return "reject"; }
}

inline json mismatch(const std::string &what, const json &exp, const json &obs) {
    return json{{"v", "mismatch"}, {"what", what}, {"expected", exp}, {"observed", obs}};
}
inline json ok() { return json{{"v", "ok"}}; }

// first differing json-pointer between two documents ("" if equal)
std::string firstDiff(const json &a, const json &b, const std::string &at = "");

// where the handler currently is (reported with a harness exception)
extern std::string g_phase;
extern std::string g_h5err;

// silence HDF5's error stack printing
void quietHdf5();
