// Handler "axis": position -> index conversion (NixAxis.tla; C07)
#include "axes.hpp"

namespace {

struct AxisFile {
    nix::File f; nix::Block b; nix::DataArray a; nix::DataFrame df;
    bool ready = false;
    void init(Ctx &c) {
        if (ready) return;
        f = nix::File::open(c.path("axis.nix"), nix::FileMode::Overwrite);
        b = f.createBlock("b", "t");
        a = b.createDataArray("a", "t", nix::DataType::Double, nix::NDSize({1}));
        std::vector<nix::Column> cols = {{"c0", "", nix::DataType::Double}, {"c1", "", nix::DataType::Int64}};
        df = b.createDataFrame("df", "t", cols);
        ready = true;
    }
};
AxisFile AF;

// the typed handle OBJECTS themselves are kept, on the heap, and never copied or assigned after their first use (a front-end
// object may remember things; a copy or an assignment would create a new object or reset it)
struct Ax { std::shared_ptr<nix::SampledDimension> sa; std::shared_ptr<nix::RangeDimension> ra; std::shared_ptr<nix::SetDimension> se; std::shared_ptr<nix::DataFrameDimension> fr; };
Ax typed(const nix::SampledDimension &x) { Ax a; a.sa = std::make_shared<nix::SampledDimension>(x); return a; }
Ax typed(const nix::RangeDimension &x) { Ax a; a.ra = std::make_shared<nix::RangeDimension>(x); return a; }
Ax typed(const nix::SetDimension &x) { Ax a; a.se = std::make_shared<nix::SetDimension>(x); return a; }
Ax typed(const nix::DataFrameDimension &x) { Ax a; a.fr = std::make_shared<nix::DataFrameDimension>(x); return a; }

Ax build(const ConcreteAxis &ax) {
    AF.a.deleteDimensions();
    if (ax.kind == "sampled") {
        nix::SampledDimension d = AF.a.appendSampledDimension(ax.interval);
        d.offset(ax.offset);
        return typed(d);
    }
    if (ax.kind == "range") {
        if (ax.ticks.empty()) {
            // a range dimension without ticks cannot be appended through the API; create with one tick and clear
            nix::RangeDimension d = AF.a.appendRangeDimension(std::vector<double>{0.0});
            d.ticks(std::vector<double>{});
            return typed(d);
        }
        return typed(AF.a.appendRangeDimension(ax.ticks));
    }
    if (ax.kind == "setL" || ax.kind == "set0") {
        std::vector<std::string> l;
        if (ax.kind == "setL") for (long i = 0; i < ax.count(); i++) l.push_back("l" + std::to_string(i));
        return typed(AF.a.appendSetDimension(l));
    }
    AF.df.rows((nix::ndsize_t) ax.count());
    return typed(AF.a.appendDataFrameDimension(AF.df, 0u));
}

// The same axis reached differently: the descriptor is first created with ANOTHER definition, a handle to it is kept and used
// for one conversion, then the definition is changed to `ax` through a second handle; the queries go through the KEPT handle.
// A conversion depends on the axis as it is at the time of the call, not on what a handle saw earlier.
Ax buildKept(const ConcreteAxis &ax) {
    AF.a.deleteDimensions();
    auto warm = [](std::function<void()> f) { try { f(); } catch (...) {} };
    if (ax.kind == "sampled") {
        Ax k = typed(AF.a.appendSampledDimension(ax.interval * 2.0 + 1.0));
        k.sa->offset(ax.offset + 3.0);
        warm([&] { (void) k.sa->indexOf(1.0, nix::PositionMatch::GreaterOrEqual); (void) k.sa->positionAt(2); (void) k.sa->indexOf(0.0, 1.0, nix::RangeMatch::Inclusive); });
        nix::SampledDimension e = AF.a.getDimension(1).asSampledDimension();
        e.samplingInterval(ax.interval); e.offset(ax.offset);
        return k;
    }
    if (ax.kind == "range") {
        Ax k = typed(AF.a.appendRangeDimension(std::vector<double>{-1000.0, 1000.0, 5000.0}));
        warm([&] { (void) k.ra->indexOf(0.0, nix::PositionMatch::GreaterOrEqual); (void) k.ra->tickAt(1); (void) k.ra->positionInRange(0.0); (void) k.ra->indexOf(0.0, 1.0, {}, nix::RangeMatch::Inclusive); });
        nix::RangeDimension e = AF.a.getDimension(1).asRangeDimension();
        e.ticks(ax.ticks);
        return k;
    }
    if (ax.kind == "setL" || ax.kind == "set0") {
        std::vector<std::string> other, l;
        for (long i = 0; i < ax.count() + 2; i++) other.push_back("o" + std::to_string(i));
        if (ax.kind == "set0") other.resize(1);
        Ax k = typed(AF.a.appendSetDimension(other));
        warm([&] { (void) k.se->indexOf(0.0, nix::PositionMatch::GreaterOrEqual); (void) k.se->indexOf(0.0, 1.0, nix::RangeMatch::Inclusive); });
        if (ax.kind == "setL") for (long i = 0; i < ax.count(); i++) l.push_back("l" + std::to_string(i));
        nix::SetDimension e = AF.a.getDimension(1).asSetDimension();
        e.labels(l);
        return k;
    }
    AF.df.rows((nix::ndsize_t) ax.count() + 2);
    Ax k = typed(AF.a.appendDataFrameDimension(AF.df, 0u));
    warm([&] { (void) k.fr->indexOf(0.0, nix::PositionMatch::GreaterOrEqual); });
    AF.df.rows((nix::ndsize_t) ax.count());
    return k;
}

json idxJson(const boost::optional<nix::ndsize_t> &o) {
    if (!o) return json{{"some", false}, {"idx", 0}};
    return json{{"some", true}, {"idx", (long long) *o}};
}
json pairJson(const boost::optional<std::pair<nix::ndsize_t, nix::ndsize_t>> &o) {
    if (!o) return json{{"some", false}, {"lo", 0}, {"hi", 0}};
    return json{{"some", true}, {"lo", (long long) o->first}, {"hi", (long long) o->second}};
}

boost::optional<nix::ndsize_t> indexOfVia(int via, const Ax &d, const std::string &k, double p, nix::PositionMatch m) {
    // via 0: member indexOf ; via 1: util::positionToIndex
    if (k == "sampled") { const nix::SampledDimension &s = *d.sa; return via == 0 ? s.indexOf(p, m) : nix::util::positionToIndex(p, "none", m, s); }
    if (k == "range") { const nix::RangeDimension &s = *d.ra; return via == 0 ? s.indexOf(p, m) : nix::util::positionToIndex(p, "none", m, s); }
    if (k == "frame") { const nix::DataFrameDimension &s = *d.fr; return via == 0 ? s.indexOf(p, m) : nix::util::positionToIndex(p, m, s); }
    const nix::SetDimension &s = *d.se; return via == 0 ? s.indexOf(p, m) : nix::util::positionToIndex(p, m, s);
}

boost::optional<std::pair<nix::ndsize_t, nix::ndsize_t>> rangeOfVia(int via, const Ax &d, const std::string &k,
                                                                     double s, double e, nix::RangeMatch m) {
    std::vector<double> sv{s}, ev{e};
    if (k == "sampled") { const auto &x = *d.sa; return via == 0 ? x.indexOf(s, e, m) : via == 1 ? x.indexOf(sv, ev, m)[0] : nix::util::positionToIndex(sv, ev, std::vector<std::string>{"none"}, m, x)[0]; }
    if (k == "range") { const auto &x = *d.ra; return via == 0 ? x.indexOf(s, e, {}, m) : via == 1 ? x.indexOf(sv, ev, m)[0] : nix::util::positionToIndex(sv, ev, std::vector<std::string>{"none"}, m, x)[0]; }
    if (k == "frame") { const auto &x = *d.fr; return via == 0 ? x.indexOf(s, e, m) : via == 1 ? x.indexOf(sv, ev, m)[0] : nix::util::positionToIndex(sv, ev, m, x)[0]; }
    const auto &x = *d.se; return via == 0 ? x.indexOf(s, e, m) : via == 1 ? x.indexOf(sv, ev, m)[0] : nix::util::positionToIndex(sv, ev, m, x)[0];
}

json handle(Ctx &c, const json &rec) {
    AF.init(c);
    const json &cs = rec["c"];
    std::string k = cs["k"], t = cs["t"], r = cs["r"], mode = cs["m"];
    long n = cs["n"], q = cs["q"], e = cs["e"];
    bool lo = cs["lo"];
    bool all = c.opts.value("axes", "quick") == "all";
    long evals = 0, bad = 0;
    json first;
    auto note = [&](const ConcreteAxis &ax, const std::string &what, const std::string &how, const std::string &pos,
                    const json &exp, const json &obs) {
        bad++;
        if (first.is_null())
            first = json{{"axis", ax.desc}, {"call", what}, {"variant", how}, {"position", pos}, {"expected", exp}, {"observed", obs},
                         {"cls", k + "/" + how + "/" + (t == "index" ? r : "pair-" + mode)}};
    };
    // sweep: the on-coordinate cases of the one-sample window are run for (a stride of) every sample index up to 10^4
    long sweep = (t == "index" && k == "sampled" && lo && n == 1 && q == 1) ? c.opts.value("sweep", 0L) : 0L;
    for (const ConcreteAxis &ax : concreteAxes(k, n, lo, c.seed, all, sweep)) {
        static unsigned long turn = 0;
        bool kept = (++turn % 2 == 0) && !(ax.kind == "range" && ax.ticks.empty());
        Ax d = kept ? buildKept(ax) : build(ax);
        // the axis definition itself: the library's coordinates must be the harness's
        for (long i = 0; i < n; i++) {
            double lib;
            if (k == "sampled") lib = d.sa->positionAt((nix::ndsize_t) (ax.base + i));
            else if (k == "range") lib = d.ra->tickAt((nix::ndsize_t) (ax.base + i));
            else continue;
            evals++;
            if (lib != ax.x(i)) note(ax, "coordinate", "on", hexd(ax.x(i)), ax.x(i), lib);
        }
        if (t == "index") {
            json exp = rec["res"];
            if (exp["some"].get<bool>()) exp["idx"] = exp["idx"].get<long>() + ax.base;
            for (const PosVariant &pv : positionsFor(ax, q, lo)) {
                for (int via = 0; via < 2; via++) {
                    json obs;
                    std::string o = outcome([&] { obs = idxJson(indexOfVia(via, d, k, pv.p, ruleOf(r))); });
                    evals++;
                    if (o != "ok") note(ax, via ? "positionToIndex" : "indexOf", pv.how, hexd(pv.p), exp, "threw");
                    else if (obs != exp) note(ax, via ? "positionToIndex" : "indexOf", pv.how, hexd(pv.p), exp, obs);
                }
                if (k == "range") {
                    std::string want = rec["inrange"];
                    nix::PositionInRange pr = d.ra->positionInRange(pv.p);
                    std::string got = pr == nix::PositionInRange::Less ? "Less" : pr == nix::PositionInRange::Greater ? "Greater"
                                    : pr == nix::PositionInRange::InRange ? "InRange" : "NoRange";
                    evals++;
                    if (!lo && got != want) note(ax, "positionInRange", pv.how, hexd(pv.p), want, got);
                }
            }
        } else {
            json exp = rec["res"];
            if (exp["some"].get<bool>()) { exp["lo"] = exp["lo"].get<long>() + ax.base; exp["hi"] = exp["hi"].get<long>() + ax.base; }
            nix::RangeMatch rm = mode == "Inclusive" ? nix::RangeMatch::Inclusive : nix::RangeMatch::Exclusive;
            for (const PosVariant &ps : positionsFor(ax, q, lo)) for (const PosVariant &pe : positionsFor(ax, e, lo)) {
                // the pair must realise the order relation of the codes
                if (q < e && !(ps.p < pe.p)) continue;
                if (q > e && !(ps.p > pe.p)) continue;
                if (q == e && q % 2 == 0 && ps.how != pe.how) {
                    // two different positions inside the same gap: still no coordinate in between -> same expectation,
                    // unless start > end, which is invalid as well
                }
                for (int via = 0; via < 3; via++) {
                    json obs;
                    std::string o = outcome([&] { obs = pairJson(rangeOfVia(via, d, k, ps.p, pe.p, rm)); });
                    evals++;
                    std::string pos = hexd(ps.p) + ".." + hexd(pe.p);
                    if (o != "ok") note(ax, "rangeOf", ps.how + "," + pe.how, pos, exp, "threw");
                    else if (obs != exp) note(ax, "rangeOf", ps.how + "," + pe.how, pos, exp, obs);
                }
            }
        }
    }
    json res = bad ? mismatch("axis:" + first["cls"].get<std::string>(), first["expected"], first["observed"]) : ok();
    res["n"] = evals;
    if (bad) { res["bad"] = bad; res["first"] = first; }
    return res;
}

Reg reg("axis", handle);
}
