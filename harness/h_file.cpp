// Handler "file": executes histories of NixFile.tla against the real library and projects the real file
// onto the specification's observation (C02, C03, C04, C08, C09, C11, C12-stability, C20).
#include "common.hpp"
#include <sys/wait.h>
#include <sys/stat.h>
#include <signal.h>
#include <fstream>
#include <set>

namespace {

const long NONE = -1, FOREIGN = -2, UNINIT = -3;

// ------------------------------------------------------------------ concretisation
struct Dict {
    std::vector<std::string> names;
    std::string name(const std::string &abs) const {
        if (abs.size() == 2 && abs[0] == 'n' && abs[1] >= '1' && abs[1] <= '9' && (size_t) (abs[1] - '1') < names.size()) return names[(size_t) (abs[1] - '1')];
        return abs;
    }
    std::string abs(const std::string &conc) const {
        for (size_t i = 0; i < names.size(); i++) if (names[i] == conc) return "n" + std::to_string(i + 1);
        return "?" + conc;
    }
};
Dict dictFor(long k) {
    static const std::vector<std::vector<std::string>> D = {
        {"alpha", "beta", "gamma", "delta", "epsilon", "zeta"},
        {"Abc", "abc", "ABC", "aBc", "abC", "AbC"},
        {"01234567-89ab-cdef-0123-456789abcdef", "fedcba98-7654-3210-fedc-ba9876543210", "aaaaaaaa-bbbb-cccc-dddd-eeeeeeeeeeee", "00000000-0000-0000-0000-000000000000", "ffffffff-ffff-ffff-ffff-ffffffffffff", "12345678-1234-1234-1234-123456789abc"},
        {"a b", " a", "a.b..", "b ", "..", "a\tb"},
        {"\xc3\xa4\xc3\xb6\xc3\xbc", "\xe6\x97\xa5\xe6\x9c\xac\xe8\xaa\x9e", "na\xc3\xafve \xe2\x98\x83", "\xce\xa9", "\xd0\x96", "\xf0\x9f\x98\x80"},
        {std::string(200, 'x'), std::string(199, 'x') + "y", std::string(200, 'y'), std::string(150, 'z'), std::string(255, 'q'), std::string(1, 'w')}};
    Dict d; d.names = D[(size_t) (((k % 6) + 6) % 6)]; return d;
}
std::string typeOf(const std::string &t) { return t == "t1" ? "type.one" : t == "t2" ? "type.two" : t; }
std::string absType(const std::string &t) { return t == "type.one" ? "t1" : t == "type.two" ? "t2" : "?" + t; }
const char *DEFTEXT = "a definition";

// ------------------------------------------------------------------ entity handles
struct Ent {
    std::string kind;
    nix::Block block; nix::Section section; nix::Property prop; nix::Source source; nix::DataArray array;
    nix::DataFrame frame; nix::Tag tag; nix::MultiTag mtag; nix::Group group; nix::Feature feature;
    std::string id() const {
        if (kind == "block") return block.id(); if (kind == "section") return section.id(); if (kind == "prop") return prop.id();
        if (kind == "source") return source.id(); if (kind == "array") return array.id(); if (kind == "frame") return frame.id();
        if (kind == "tag") return tag.id(); if (kind == "mtag") return mtag.id(); if (kind == "group") return group.id();
        if (kind == "feature") return feature.id(); return "";
    }
    time_t created() const {
        if (kind == "block") return block.createdAt(); if (kind == "section") return section.createdAt(); if (kind == "prop") return prop.createdAt();
        if (kind == "source") return source.createdAt(); if (kind == "array") return array.createdAt(); if (kind == "frame") return frame.createdAt();
        if (kind == "tag") return tag.createdAt(); if (kind == "mtag") return mtag.createdAt(); if (kind == "group") return group.createdAt();
        if (kind == "feature") return feature.createdAt(); return 0;
    }
    time_t updated() const {
        if (kind == "block") return block.updatedAt(); if (kind == "section") return section.updatedAt(); if (kind == "prop") return prop.updatedAt();
        if (kind == "source") return source.updatedAt(); if (kind == "array") return array.updatedAt(); if (kind == "frame") return frame.updatedAt();
        if (kind == "tag") return tag.updatedAt(); if (kind == "mtag") return mtag.updatedAt(); if (kind == "group") return group.updatedAt();
        if (kind == "feature") return feature.updatedAt(); return 0;
    }
    bool valid() const {
        if (kind == "block") return block.isValidEntity(); if (kind == "section") return section.isValidEntity(); if (kind == "prop") return prop.isValidEntity();
        if (kind == "source") return source.isValidEntity(); if (kind == "array") return array.isValidEntity(); if (kind == "frame") return frame.isValidEntity();
        if (kind == "tag") return tag.isValidEntity(); if (kind == "mtag") return mtag.isValidEntity(); if (kind == "group") return group.isValidEntity();
        if (kind == "feature") return feature.isValidEntity(); return false;
    }
    std::string name() const {
        if (kind == "block") return block.name(); if (kind == "section") return section.name(); if (kind == "prop") return prop.name();
        if (kind == "source") return source.name(); if (kind == "array") return array.name(); if (kind == "frame") return frame.name();
        if (kind == "tag") return tag.name(); if (kind == "mtag") return mtag.name(); if (kind == "group") return group.name();
        return "";
    }
    void touch() {   // a mutator through the handle (used to check that closed handles throw)
        if (kind == "block") block.definition("x"); else if (kind == "section") section.definition("x"); else if (kind == "prop") prop.definition("x");
        else if (kind == "source") source.definition("x"); else if (kind == "array") array.definition("x"); else if (kind == "frame") frame.definition("x");
        else if (kind == "tag") tag.definition("x"); else if (kind == "mtag") mtag.definition("x"); else if (kind == "group") group.definition("x");
        else if (kind == "feature") feature.linkType(nix::LinkType::Tagged);
    }
};
Ent mk(const nix::Block &x) { Ent e; e.kind = "block"; e.block = x; return e; }
Ent mk(const nix::Section &x) { Ent e; e.kind = "section"; e.section = x; return e; }
Ent mk(const nix::Property &x) { Ent e; e.kind = "prop"; e.prop = x; return e; }
Ent mk(const nix::Source &x) { Ent e; e.kind = "source"; e.source = x; return e; }
Ent mk(const nix::DataArray &x) { Ent e; e.kind = "array"; e.array = x; return e; }
Ent mk(const nix::DataFrame &x) { Ent e; e.kind = "frame"; e.frame = x; return e; }
Ent mk(const nix::Tag &x) { Ent e; e.kind = "tag"; e.tag = x; return e; }
Ent mk(const nix::MultiTag &x) { Ent e; e.kind = "mtag"; e.mtag = x; return e; }
Ent mk(const nix::Group &x) { Ent e; e.kind = "group"; e.group = x; return e; }
Ent mk(const nix::Feature &x) { Ent e; e.kind = "feature"; e.feature = x; return e; }

struct Session {
    nix::File f; bool open = false; std::string mode;
    nix::File ff; nix::Block fb; nix::DataArray fa; nix::Section fs; nix::Source fsrc; nix::DataFrame ffr; nix::Tag ftag; nix::MultiTag fmtag;
    bool haveForeign = false;
    std::map<long, Ent> retained;            // handles obtained in the current session
    std::vector<long> retainedOrder;
    std::map<long, Ent> fresh;               // handles from the last walk (fresh look-ups)
    std::map<long, Ent> second;              // a second handle of every entity created in the session (looked up through its parent
                                             // right after the creation): calls alternate between the two handles of an entity
    unsigned long tick = 0;
    unsigned long closes = 0; bool twoFiles = false; bool lookBeforeClose = true; bool manySel = true;
    std::map<std::string, long> eidOfId;     // UUID -> model eid (bound at creation, survives reopen)
    std::map<long, std::string> idOf;
    std::map<long, long> createdAt;
    std::map<long, long> updatedAt;          // last seen updated_at per entity: never goes back, never precedes created_at
    // dimension descriptor handles as the append calls returned them (per array eid, in append order), kept on the heap and
    // never copied; read after every call; must show what a fresh look-up of the same descriptor shows
    struct KDim { std::string k; std::shared_ptr<nix::SetDimension> se; std::shared_ptr<nix::SampledDimension> sa; std::shared_ptr<nix::RangeDimension> ra; std::shared_ptr<nix::DataFrameDimension> fr; };
    std::map<long, std::vector<KDim>> keptDims;
    // ballast: K extra entities per owning container (created by the harness next to the model's entities, never touched
    // afterwards, invisible to the model): containers with a few dozen members behave differently inside the storage layer
    // (compact vs dense link storage, index caches, iteration restarts) than the 2-4 members the bounded model reaches
    long K = 0; std::set<std::string> ballast;
    json carried = json::array();            // issues observed immediately before a close (what was observable before closing)
    Dict dict;
    std::string path;
    long unknown = 0;
    std::string roHash;                      // hash of the file bytes taken before a read-only session was opened
    json toJson() const {
        json j; j["ids"] = json::object();
        for (auto &p : idOf) j["ids"][std::to_string(p.first)] = p.second;
        j["created"] = json::object();
        for (auto &p : createdAt) j["created"][std::to_string(p.first)] = p.second;
        j["ballast"] = json::array(); for (auto &b : ballast) j["ballast"].push_back(b);
        return j;
    }
    void fromJson(const json &j) {
        for (auto it = j["ids"].begin(); it != j["ids"].end(); ++it) { long e = std::stol(it.key()); idOf[e] = it.value(); eidOfId[it.value()] = e; }
        for (auto it = j["created"].begin(); it != j["created"].end(); ++it) createdAt[std::stol(it.key())] = it.value();
        if (j.contains("ballast")) for (auto &b : j["ballast"]) ballast.insert(b.get<std::string>());
    }
};

void ensureForeign(Ctx &c, Session &s) {
    if (s.haveForeign) return;
    s.ff = nix::File::open(c.path("foreign.nix"), nix::FileMode::Overwrite);
    s.fb = s.ff.createBlock("fblock", "t");
    s.fa = s.fb.createDataArray("farray", "t", nix::DataType::Double, nix::NDSize({2}));
    s.fs = s.ff.createSection("fsection", "t");
    s.fsrc = s.fb.createSource("fsource", "t");
    std::vector<nix::Column> cols = {{"c0", "", nix::DataType::Double}};
    s.ffr = s.fb.createDataFrame("fframe", "t", cols);
    s.ftag = s.fb.createTag("ftag", "t", {1.0});
    s.fmtag = s.fb.createMultiTag("fmtag", "t", s.fa);
    s.haveForeign = true;
}

json observe(Session &s);
Ent &handleOf(Session &s, long eid) {
    auto it = s.retained.find(eid);
    if (it != s.retained.end()) {
        auto st = s.second.find(eid);
        if (st != s.second.end() && (s.tick++ % 2)) return st->second;     // whichever of its two handles the client has at hand
        return it->second;
    }
    auto jt = s.fresh.find(eid);
    if (jt != s.fresh.end()) return jt->second;
    // not obtained in this session: look it up afresh (walk from the root)
    if (s.open) { observe(s); jt = s.fresh.find(eid); if (jt != s.fresh.end()) return jt->second; }
    throw std::runtime_error("harness: no handle for eid " + std::to_string(eid));
}

void bindNew(Session &s, long eid, const Ent &e) {
    std::string id = e.id();
    s.eidOfId[id] = eid; s.idOf[eid] = id; s.createdAt[eid] = (long) e.created();
    s.retained[eid] = e; s.retainedOrder.push_back(eid);
}

// ------------------------------------------------------------------ attribute bundles
// attr stamp v of an entity of kind k <-> a bundle of kind-specific scalars
void applyAttr(Ent &e, long v) {
    if (e.kind == "array") {
        // the data write comes first: in a read-only session it is the call that fails (a failing data set write, not only a
        // failing attribute write, is part of what a session may have seen before it is closed)
        nix::NDSize sh = e.array.dataExtent();
        std::vector<double> d((size_t) sh.nelms());
        for (size_t i = 0; i < d.size(); i++) d[i] = 10.0 * v + i;
        e.array.setData(nix::DataType::Double, d.data(), sh, nix::NDSize(sh.size(), 0));
        e.array.label("label" + std::to_string(v));
        e.array.unit(v == 1 ? "mV" : "s");
        e.array.expansionOrigin(1.5 * v);
        e.array.polynomCoefficients(std::vector<double>{(double) v, 2.0});
    } else if (e.kind == "tag") {
        e.tag.position(std::vector<double>{(double) v, v + 0.5});
        e.tag.extent(std::vector<double>{1.0 * v});
        e.tag.units(v == 1 ? std::vector<std::string>{"mV"} : std::vector<std::string>{"s", "Hz"});
    } else if (e.kind == "mtag") {
        e.mtag.units(v == 1 ? std::vector<std::string>{"mV"} : std::vector<std::string>{"s", "Hz"});
    } else if (e.kind == "frame") {
        e.frame.rows((nix::ndsize_t) v);
        e.frame.writeCell(0, 0u, nix::Variant(2.5 * v));
    } else if (e.kind == "feature") {
        e.feature.linkType(v == 1 ? nix::LinkType::Untagged : nix::LinkType::Indexed);
    } else if (e.kind == "prop") {
        e.prop.values(std::vector<nix::Variant>{nix::Variant((double) v), nix::Variant(v + 1.0)});
        e.prop.unit(v == 1 ? "mV" : "s");
        e.prop.uncertainty(0.1 * v);
    } else if (e.kind == "section") {
        e.section.repository("repo" + std::to_string(v));
    } else throw std::runtime_error("harness: SetAttr on kind " + e.kind);
}

template <typename T> bool optEq(const boost::optional<T> &o, const T &v) { return o && *o == v; }

long readAttr(const Ent &e, json &detail) {
    auto which = [&](std::function<bool(long)> is, std::function<bool()> initial) -> long {
        if (initial()) return 0; if (is(1)) return 1; if (is(2)) return 2; return -99; };
    if (e.kind == "array") {
        const nix::DataArray &a = e.array;
        auto dataIs = [&](long v) { nix::NDSize sh = a.dataExtent(); std::vector<double> d((size_t) sh.nelms(), -1);
            a.getDataDirect(nix::DataType::Double, d.data(), sh, nix::NDSize(sh.size(), 0));
            for (size_t i = 0; i < d.size(); i++) if (d[i] != (v == 0 ? 0.0 : 10.0 * v + i)) return false; return true; };
        long r = which([&](long v) { return optEq(a.label(), "label" + std::to_string(v)) && optEq(a.unit(), std::string(v == 1 ? "mV" : "s"))
                                   && optEq(a.expansionOrigin(), 1.5 * v) && a.polynomCoefficients() == std::vector<double>{(double) v, 2.0} && dataIs(v); },
                       [&] { return !a.label() && !a.unit() && !a.expansionOrigin() && a.polynomCoefficients().empty() && dataIs(0); });
        if (r == -99) detail = {{"label", a.label() ? *a.label() : "<none>"}, {"unit", a.unit() ? *a.unit() : "<none>"}};
        return r;
    }
    if (e.kind == "tag") {
        const nix::Tag &t = e.tag;
        return which([&](long v) { return t.position() == std::vector<double>{(double) v, v + 0.5} && t.extent() == std::vector<double>{1.0 * v}
                                   && t.units() == (v == 1 ? std::vector<std::string>{"mV"} : std::vector<std::string>{"s", "Hz"}); },
                     [&] { return t.position() == std::vector<double>{1.0} && t.extent().empty() && t.units().empty(); });
    }
    if (e.kind == "mtag") {
        const nix::MultiTag &t = e.mtag;
        return which([&](long v) { return t.units() == (v == 1 ? std::vector<std::string>{"mV"} : std::vector<std::string>{"s", "Hz"}); },
                     [&] { return t.units().empty(); });
    }
    if (e.kind == "frame") {
        const nix::DataFrame &f = e.frame;
        return which([&](long v) { return f.rows() == (nix::ndsize_t) v && f.readCell(0, 0u).get<double>() == 2.5 * v; },
                     [&] { return f.rows() == 0; });
    }
    if (e.kind == "feature") {
        nix::LinkType lt = e.feature.linkType();
        return lt == nix::LinkType::Tagged ? 0 : lt == nix::LinkType::Untagged ? 1 : 2;
    }
    if (e.kind == "prop") {
        const nix::Property &p = e.prop;
        return which([&](long v) { std::vector<nix::Variant> vals = p.values();
                                   return vals.size() == 2 && vals[0].get<double>() == (double) v && vals[1].get<double>() == v + 1.0
                                          && optEq(p.unit(), std::string(v == 1 ? "mV" : "s")) && optEq(p.uncertainty(), 0.1 * v); },
                     [&] { std::vector<nix::Variant> vals = p.values(); return vals.size() == 1 && vals[0].get<double>() == 0.5 && !p.unit() && !p.uncertainty(); });
    }
    if (e.kind == "section") {
        return which([&](long v) { return optEq(e.section.repository(), "repo" + std::to_string(v)); }, [&] { return !e.section.repository(); });
    }
    return 0;
}

// ------------------------------------------------------------------ observer
struct Walk {
    Session &s;
    json ents = json::array();
    json issues = json::array();
    std::map<long, Ent> fresh;
    explicit Walk(Session &ss) : s(ss) {}

    void issue(const std::string &w) { if (issues.size() < 20) issues.push_back(w); }

    long eidOf(const std::string &id) {
        auto it = s.eidOfId.find(id);
        if (it != s.eidOfId.end()) return it->second;
        long e = -100 - (s.unknown++);
        s.eidOfId[id] = e;
        return e;
    }

    // look-up interface of one container checked against itself (C03: "agree with one another")
    template <typename T, typename GI, typename GS, typename HS, typename HE>
    std::vector<long> container(const std::string &where, nix::ndsize_t count, const std::vector<T> &all, GI getIdx, GS getStr, HS hasStr, HE hasEnt,
                                bool named = true) {
        std::vector<long> out;
        if (count != all.size()) issue(where + ": count " + std::to_string(count) + " != enumeration " + std::to_string(all.size()));
        std::set<std::string> seenNames, seenIds;
        for (size_t i = 0; i < all.size(); i++) {
            const T &e = all[i];
            if (!e) { issue(where + ": enumeration yields an empty handle at " + std::to_string(i)); out.push_back(-50); continue; }
            std::string id = e.id();
            if (!s.ballast.count(id)) out.push_back(eidOf(id));       // ballast takes part in every look-up check below, but not in the projected state
            if (!seenIds.insert(id).second) issue(where + ": id listed twice");
            try {
                T bi = getIdx(i);
                if (!bi || bi.id() != id) issue(where + ": get(index) disagrees with enumeration at " + std::to_string(i));
                T bd = getStr(id);
                if (!bd || bd.id() != id) issue(where + ": get(id) disagrees at " + std::to_string(i));
                if (!hasStr(id)) issue(where + ": has(id) is false for a listed entity");
                if (!hasEnt(e)) issue(where + ": has(handle) is false for a listed entity");
                if (named) {
                    std::string nm = mk(e).name();
                    if (!seenNames.insert(nm).second) issue(where + ": name listed twice: " + nm);
                    T bn = getStr(nm);
                    if (!bn || bn.id() != id) issue(where + ": get(name) disagrees at " + std::to_string(i));
                    if (!hasStr(nm)) issue(where + ": has(name) is false for a listed entity");
                }
            } catch (const std::exception &ex) { issue(where + ": look-up threw: " + ex.what()); }
        }
        // negative look-ups
        try { if (hasStr("no-such-entity-name")) issue(where + ": has(absent name) is true"); } catch (...) {}
        try { if (hasStr("11111111-2222-3333-4444-555555555555")) issue(where + ": has(absent id) is true"); } catch (...) {}
        try { T x = getStr("no-such-entity-name"); if (x) issue(where + ": get(absent name) returns an entity"); } catch (...) {}
        try { T x = getIdx(all.size()); if (x) issue(where + ": get(count) returns an entity"); } catch (...) {}
        return out;
    }

    json base(const Ent &e, long eid) {
        json r = {{"eid", eid}, {"kind", e.kind}, {"kids", json::object()}, {"one", json::object()}, {"dims", json::array()}, {"def", 0}, {"type", ""}, {"name", ""}, {"sh", 0}};
        std::string id = e.id();
        auto it = s.createdAt.find(eid);
        long cr = (long) e.created();
        if (it == s.createdAt.end()) s.createdAt[eid] = cr;
        else if (it->second != cr) r["created_changed"] = true;
        long up = (long) e.updated();
        auto ut = s.updatedAt.find(eid);
        if (ut != s.updatedAt.end() && up < ut->second) r["updated_went_back"] = true;
        if (up < cr) r["updated_before_created"] = true;
        s.updatedAt[eid] = up;
        json detail;
        long a = readAttr(e, detail);
        r["attr"] = a;
        if (a == -99) r["attr_detail"] = detail;
        fresh[eid] = e;
        return r;
    }
    template <typename T> void named(json &r, const T &x) {
        r["name"] = s.dict.abs(x.name());
        r["type"] = absType(x.type());
        boost::optional<std::string> d = x.definition();
        r["def"] = !d ? 0 : (*d == DEFTEXT ? 1 : -99);
    }
    template <typename T> long metadataOf(const T &x, const std::string &where) {
        try { nix::Section m = x.metadata(); return m ? eidOf(m.id()) : NONE; }
        catch (const std::exception &ex) { issue(where + ": metadata() threw: " + ex.what()); return -77; }
    }
    template <typename T> std::vector<long> esources(const T &x, const std::string &where) {
        return container<nix::Source>(where + "/esources", x.sourceCount(), x.sources(),
            [&](size_t i) { return x.getSource(i); }, [&](const std::string &k) { return x.getSource(k); },
            [&](const std::string &k) { return x.hasSource(k); }, [&](const nix::Source &y) { return x.hasSource(y); }, false);
    }

    void walkSource(const nix::Source &src, const std::string &where) {
        long eid = eidOf(src.id());
        json r = base(mk(src), eid);
        named(r, src);
        std::vector<nix::Source> ch = src.sources();
        r["kids"]["sources"] = container<nix::Source>(where + "/sources", src.sourceCount(), ch,
            [&](size_t i) { return src.getSource(i); }, [&](const std::string &k) { return src.getSource(k); },
            [&](const std::string &k) { return src.hasSource(k); }, [&](const nix::Source &y) { return src.hasSource(y); });
        r["one"]["metadata"] = metadataOf(src, where);
        ents.push_back(r);
        for (auto &c : ch) if (c && !s.ballast.count(c.id())) walkSource(c, where + "/" + c.name());
    }

    void walkSection(const nix::Section &sec, const std::string &where) {
        long eid = eidOf(sec.id());
        json r = base(mk(sec), eid);
        named(r, sec);
        std::vector<nix::Section> ch = sec.sections();
        r["kids"]["sections"] = container<nix::Section>(where + "/sections", sec.sectionCount(), ch,
            [&](size_t i) { return sec.getSection(i); }, [&](const std::string &k) { return sec.getSection(k); },
            [&](const std::string &k) { return sec.hasSection(k); }, [&](const nix::Section &y) { return sec.hasSection(y); });
        std::vector<nix::Property> ps = sec.properties();
        r["kids"]["props"] = container<nix::Property>(where + "/props", sec.propertyCount(), ps,
            [&](size_t i) { return sec.getProperty(i); }, [&](const std::string &k) { return sec.getProperty(k); },
            [&](const std::string &k) { return sec.hasProperty(k); }, [&](const nix::Property &y) { return sec.hasProperty(y); });
        try { nix::Section l = sec.link(); r["one"]["link"] = l ? eidOf(l.id()) : NONE; }
        catch (const std::exception &ex) { issue(where + ": link() threw: " + ex.what()); r["one"]["link"] = -77; }
        ents.push_back(r);
        for (auto &p : ps) if (p && !s.ballast.count(p.id())) {
            json pr = base(mk(p), eidOf(p.id()));
            pr["name"] = s.dict.abs(p.name());
            boost::optional<std::string> d = p.definition();
            pr["def"] = !d ? 0 : (*d == DEFTEXT ? 1 : -99);
            pr["type"] = "t1";     // properties have no type; the model's constant
            ents.push_back(pr);
        }
        for (auto &c : ch) if (c && !s.ballast.count(c.id())) walkSection(c, where + "/" + c.name());
    }

    template <typename T> void walkTagCommon(json &r, const T &t, const std::string &where) {
        r["kids"]["refs"] = container<nix::DataArray>(where + "/refs", t.referenceCount(), t.references(),
            [&](size_t i) { return t.getReference(i); }, [&](const std::string &k) { return t.getReference(k); },
            [&](const std::string &k) { return t.hasReference(k); }, [&](const nix::DataArray &y) { return t.hasReference(y); });
        std::vector<nix::Feature> fs = t.features();
        r["kids"]["features"] = container<nix::Feature>(where + "/features", t.featureCount(), fs,
            [&](size_t i) { return t.getFeature(i); }, [&](const std::string &k) { return t.getFeature(k); },
            [&](const std::string &k) { return t.hasFeature(k); }, [&](const nix::Feature &y) { return t.hasFeature(y); }, false);
        r["kids"]["esources"] = esources(t, where);
        r["one"]["metadata"] = metadataOf(t, where);
        for (auto &f : fs) if (f) {
            json fr = base(mk(f), eidOf(f.id()));
            try { nix::DataArray d = f.data(); fr["one"]["data"] = d ? eidOf(d.id()) : NONE; }
            catch (const std::exception &ex) { issue(where + ": feature.data() threw: " + ex.what()); fr["one"]["data"] = -77; }
            fr["type"] = "t1";
            ents.push_back(fr);
        }
    }

    void walkBlock(const nix::Block &b, const std::string &where) {
        long eid = eidOf(b.id());
        json r = base(mk(b), eid);
        named(r, b);
        std::vector<nix::DataArray> as = b.dataArrays();
        r["kids"]["arrays"] = container<nix::DataArray>(where + "/arrays", b.dataArrayCount(), as,
            [&](size_t i) { return b.getDataArray(i); }, [&](const std::string &k) { return b.getDataArray(k); },
            [&](const std::string &k) { return b.hasDataArray(k); }, [&](const nix::DataArray &y) { return b.hasDataArray(y); });
        std::vector<nix::DataFrame> fr = b.dataFrames();
        r["kids"]["frames"] = container<nix::DataFrame>(where + "/frames", b.dataFrameCount(), fr,
            [&](size_t i) { return b.getDataFrame(i); }, [&](const std::string &k) { return b.getDataFrame(k); },
            [&](const std::string &k) { return b.hasDataFrame(k); }, [&](const nix::DataFrame &y) { return b.hasDataFrame(y); });
        std::vector<nix::Tag> ts = b.tags();
        r["kids"]["tags"] = container<nix::Tag>(where + "/tags", b.tagCount(), ts,
            [&](size_t i) { return b.getTag(i); }, [&](const std::string &k) { return b.getTag(k); },
            [&](const std::string &k) { return b.hasTag(k); }, [&](const nix::Tag &y) { return b.hasTag(y); });
        std::vector<nix::MultiTag> ms = b.multiTags();
        r["kids"]["mtags"] = container<nix::MultiTag>(where + "/mtags", b.multiTagCount(), ms,
            [&](size_t i) { return b.getMultiTag(i); }, [&](const std::string &k) { return b.getMultiTag(k); },
            [&](const std::string &k) { return b.hasMultiTag(k); }, [&](const nix::MultiTag &y) { return b.hasMultiTag(y); });
        std::vector<nix::Group> gs = b.groups();
        r["kids"]["groups"] = container<nix::Group>(where + "/groups", b.groupCount(), gs,
            [&](size_t i) { return b.getGroup(i); }, [&](const std::string &k) { return b.getGroup(k); },
            [&](const std::string &k) { return b.hasGroup(k); }, [&](const nix::Group &y) { return b.hasGroup(y); });
        std::vector<nix::Source> ss = b.sources();
        r["kids"]["sources"] = container<nix::Source>(where + "/sources", b.sourceCount(), ss,
            [&](size_t i) { return b.getSource(i); }, [&](const std::string &k) { return b.getSource(k); },
            [&](const std::string &k) { return b.hasSource(k); }, [&](const nix::Source &y) { return b.hasSource(y); });
        r["one"]["metadata"] = metadataOf(b, where);
        ents.push_back(r);

        for (auto &a : as) if (a && !s.ballast.count(a.id())) {
            std::string w = where + "/" + a.name();
            json ar = base(mk(a), eidOf(a.id()));
            named(ar, a);
            ar["kids"]["esources"] = esources(a, w);
            ar["one"]["metadata"] = metadataOf(a, w);
            nix::NDSize sh = a.dataExtent();
            ar["sh"] = (sh.size() == 1 && sh[0] == 2) ? 1 : (sh.size() == 1 && sh[0] == 3) ? 2 : -99;
            json dims = json::array();
            try {
                std::vector<nix::Dimension> ds = a.dimensions();
                if (ds.size() != a.dimensionCount()) issue(w + ": dimensionCount disagrees with dimensions()");
                for (size_t i = 0; i < ds.size(); i++) {
                    nix::Dimension d = ds[i];
                    if (d.index() != i + 1) issue(w + ": dimension index gap");
                    nix::DimensionType dt = d.dimensionType();
                    json dj = {{"k", dt == nix::DimensionType::Set ? "set" : dt == nix::DimensionType::Sample ? "sampled" : dt == nix::DimensionType::Range ? "range" : "frame"}, {"f", NONE}};
                    if (dt == nix::DimensionType::DataFrame) {
                        try { nix::DataFrame df = d.asDataFrameDimension().data(); dj["f"] = df ? eidOf(df.id()) : NONE; }
                        catch (const std::exception &) { dj["f"] = NONE; }
                    }
                    dims.push_back(dj);
                }
            } catch (const std::exception &ex) { issue(w + ": dimensions threw: " + ex.what()); }
            ar["dims"] = dims;
            ents.push_back(ar);
        }
        for (auto &f : fr) if (f) {
            std::string w = where + "/" + f.name();
            json r2 = base(mk(f), eidOf(f.id()));
            named(r2, f);
            r2["kids"]["esources"] = esources(f, w);
            r2["one"]["metadata"] = metadataOf(f, w);
            ents.push_back(r2);
        }
        for (auto &t : ts) if (t && !s.ballast.count(t.id())) {
            std::string w = where + "/" + t.name();
            json r2 = base(mk(t), eidOf(t.id()));
            named(r2, t);
            walkTagCommon(r2, t, w);
            ents.push_back(r2);
        }
        for (auto &t : ms) if (t) {
            std::string w = where + "/" + t.name();
            json r2 = base(mk(t), eidOf(t.id()));
            named(r2, t);
            walkTagCommon(r2, t, w);
            try { nix::DataArray p = t.positions(); r2["one"]["positions"] = p ? eidOf(p.id()) : NONE; }
            catch (const std::exception &ex) { r2["one"]["positions"] = NONE; }
            try { nix::DataArray p = t.extents(); r2["one"]["extents"] = p ? eidOf(p.id()) : NONE; }
            catch (const std::exception &ex) { issue(w + ": extents() threw: " + ex.what()); r2["one"]["extents"] = -77; }
            ents.push_back(r2);
        }
        for (auto &g : gs) if (g && !s.ballast.count(g.id())) {
            std::string w = where + "/" + g.name();
            json r2 = base(mk(g), eidOf(g.id()));
            named(r2, g);
            r2["kids"]["esources"] = esources(g, w);
            r2["one"]["metadata"] = metadataOf(g, w);
            r2["kids"]["garrays"] = container<nix::DataArray>(w + "/garrays", g.dataArrayCount(), g.dataArrays(),
                [&](size_t i) { return g.getDataArray(i); }, [&](const std::string &k) { return g.getDataArray(k); },
                [&](const std::string &k) { return g.hasDataArray(k); }, [&](const nix::DataArray &y) { return g.hasDataArray(y); });
            r2["kids"]["gframes"] = container<nix::DataFrame>(w + "/gframes", g.dataFrameCount(), g.dataFrames(),
                [&](size_t i) { return g.getDataFrame(i); }, [&](const std::string &k) { return g.getDataFrame(k); },
                [&](const std::string &k) { return g.hasDataFrame(k); }, [&](const nix::DataFrame &y) { return g.hasDataFrame(y); });
            r2["kids"]["gtags"] = container<nix::Tag>(w + "/gtags", g.tagCount(), g.tags(),
                [&](size_t i) { return g.getTag(i); }, [&](const std::string &k) { return g.getTag(k); },
                [&](const std::string &k) { return g.hasTag(k); }, [&](const nix::Tag &y) { return g.hasTag(y); });
            r2["kids"]["gmtags"] = container<nix::MultiTag>(w + "/gmtags", g.multiTagCount(), g.multiTags(),
                [&](size_t i) { return g.getMultiTag(i); }, [&](const std::string &k) { return g.getMultiTag(k); },
                [&](const std::string &k) { return g.hasMultiTag(k); }, [&](const nix::MultiTag &y) { return g.hasMultiTag(y); });
            ents.push_back(r2);
        }
        for (auto &x : ss) if (x && !s.ballast.count(x.id())) walkSource(x, where + "/" + x.name());
    }

    void walkFile() {
        json r = {{"eid", 0}, {"kind", "file"}, {"name", ""}, {"type", ""}, {"def", 0}, {"attr", 0}, {"sh", 0}, {"kids", json::object()}, {"one", json::object()}, {"dims", json::array()}};
        std::vector<nix::Block> bs = s.f.blocks();
        r["kids"]["blocks"] = container<nix::Block>("/blocks", s.f.blockCount(), bs,
            [&](size_t i) { return s.f.getBlock(i); }, [&](const std::string &k) { return s.f.getBlock(k); },
            [&](const std::string &k) { return s.f.hasBlock(k); }, [&](const nix::Block &y) { return s.f.hasBlock(y); });
        std::vector<nix::Section> ss = s.f.sections();
        r["kids"]["sections"] = container<nix::Section>("/sections", s.f.sectionCount(), ss,
            [&](size_t i) { return s.f.getSection(i); }, [&](const std::string &k) { return s.f.getSection(k); },
            [&](const std::string &k) { return s.f.hasSection(k); }, [&](const nix::Section &y) { return s.f.hasSection(y); });
        ents.push_back(r);
        for (auto &b : bs) if (b && !s.ballast.count(b.id())) walkBlock(b, "/" + b.name());
        for (auto &x : ss) if (x && !s.ballast.count(x.id())) walkSection(x, "/" + x.name());
    }
};

std::string fileHash(const std::string &p) {
    std::ifstream in(p, std::ios::binary);
    unsigned long long h = 1469598103934665603ULL; size_t n = 0;
    char buf[65536];
    while (in) { in.read(buf, sizeof buf); std::streamsize k = in.gcount(); for (std::streamsize i = 0; i < k; i++) { h ^= (unsigned char) buf[i]; h *= 1099511628211ULL; } n += (size_t) k; }
    return std::to_string(n) + ":" + std::to_string(h);
}

// what a handle shows about its entity through cheap getters (used to compare a handle the client has kept with a
// fresh look-up of the same entity: both must show the same state)
json viewOf(const Ent &e) {
    json v = json::object();
    auto sid = [](const nix::Section &x) { return x ? x.id() : std::string("none"); };
    auto aid = [](const nix::DataArray &x) { return x ? x.id() : std::string("none"); };
    try {
        if (e.kind == "block") { v["name"] = e.block.name(); v["type"] = e.block.type(); v["def"] = e.block.definition() ? *e.block.definition() : ""; v["md"] = sid(e.block.metadata());
            v["n"] = {e.block.dataArrayCount(), e.block.tagCount(), e.block.multiTagCount(), e.block.groupCount(), e.block.sourceCount(), e.block.dataFrameCount()}; }
        else if (e.kind == "section") { v["name"] = e.section.name(); v["type"] = e.section.type(); v["def"] = e.section.definition() ? *e.section.definition() : ""; v["link"] = sid(e.section.link());
            v["n"] = {e.section.sectionCount(), e.section.propertyCount()}; v["repo"] = e.section.repository() ? *e.section.repository() : ""; }
        else if (e.kind == "prop") { v["name"] = e.prop.name(); v["n"] = e.prop.valueCount(); v["unit"] = e.prop.unit() ? *e.prop.unit() : ""; }
        else if (e.kind == "source") { v["name"] = e.source.name(); v["type"] = e.source.type(); v["md"] = sid(e.source.metadata()); v["n"] = e.source.sourceCount(); }
        else if (e.kind == "array") { v["name"] = e.array.name(); v["type"] = e.array.type(); v["md"] = sid(e.array.metadata()); v["n"] = {e.array.sourceCount(), e.array.dimensionCount()};
            v["label"] = e.array.label() ? *e.array.label() : ""; v["unit"] = e.array.unit() ? *e.array.unit() : ""; nix::NDSize sh = e.array.dataExtent(); v["shape"] = std::vector<long>(sh.begin(), sh.end()); }
        else if (e.kind == "frame") { v["name"] = e.frame.name(); v["type"] = e.frame.type(); v["md"] = sid(e.frame.metadata()); v["n"] = {e.frame.sourceCount(), e.frame.rows()}; }
        else if (e.kind == "tag") { v["name"] = e.tag.name(); v["type"] = e.tag.type(); v["md"] = sid(e.tag.metadata()); v["n"] = {e.tag.referenceCount(), e.tag.featureCount(), e.tag.sourceCount()}; v["pos"] = e.tag.position(); v["units"] = e.tag.units(); }
        else if (e.kind == "mtag") { v["name"] = e.mtag.name(); v["type"] = e.mtag.type(); v["md"] = sid(e.mtag.metadata()); v["n"] = {e.mtag.referenceCount(), e.mtag.featureCount(), e.mtag.sourceCount()};
            v["positions"] = aid(e.mtag.positions()); v["extents"] = aid(e.mtag.extents()); }
        else if (e.kind == "group") { v["name"] = e.group.name(); v["type"] = e.group.type(); v["md"] = sid(e.group.metadata()); v["n"] = {e.group.dataArrayCount(), e.group.tagCount(), e.group.multiTagCount(), e.group.dataFrameCount(), e.group.sourceCount()}; }
        else if (e.kind == "feature") { v["data"] = aid(e.feature.data()); v["lt"] = (int) e.feature.linkType(); }
    } catch (const std::exception &ex) { v["threw"] = ex.what(); }
    return v;
}

json keptDimView(const Session::KDim &q);
json observe(Session &s) {
    json o = {{"open", s.open}, {"mode", s.open ? s.mode : ""}, {"ents", json::array()}, {"handles", json::array()}, {"issues", json::array()}};
    // C11: after close() the file is released: no descriptor of this process refers to it any more
    if (!s.open) {
        for (int fd = 3; fd < 256; fd++) {
            char lnk[64], buf[4096]; snprintf(lnk, sizeof lnk, "/proc/self/fd/%d", fd);
            ssize_t n = readlink(lnk, buf, sizeof buf - 1);
            if (n > 0) { buf[n] = 0; if (s.path == buf) o["issues"].push_back("file descriptor still open on the file after close"); }
        }
    }
    // C09: a read-only session never changes a single byte of the file
    if (!s.roHash.empty() && fileHash(s.path) != s.roHash) o["issues"].push_back("file bytes changed during / after a read-only session");
    if (s.open) {
        Walk w(s);
        // a getter of the public API that throws while the file is being looked at is a disagreement with the specification
        // (every entity of a file produced by the library can be read), not a failure of the machinery
        try { w.walkFile(); } catch (const std::exception &ex) { w.issue(std::string("looking at the file threw: ") + ex.what() + " [" + g_h5err.substr(0, 160) + "]"); }
        std::vector<json> v(w.ents.begin(), w.ents.end());
        std::sort(v.begin(), v.end(), [](const json &a, const json &b) { return a["eid"].get<long>() < b["eid"].get<long>(); });
        o["ents"] = v;
        for (auto &x : w.issues) o["issues"].push_back(x);
        s.fresh = w.fresh;
        // has(handle) is about the entity the handle denotes: a handle of ANOTHER entity of the same kind - in particular a namesake
        // living under another parent - is not in the container
        {
            std::map<long, std::pair<long, std::string>> parentOf;     // child eid -> (parent eid, slot)
            for (auto &e : w.ents) for (auto it = e["kids"].begin(); it != e["kids"].end(); ++it)
                for (auto &c : it.value()) if (c.is_number_integer()) parentOf[c.get<long>()] = {e["eid"].get<long>(), it.key()};
            size_t asked = 0;
            for (auto &a : w.fresh) for (auto &b : w.fresh) {
                if (asked >= 60) break;
                if (a.first == b.first || a.second.kind != b.second.kind) continue;
                auto pa = parentOf.find(a.first), pb = parentOf.find(b.first);
                if (pa == parentOf.end() || pb == parentOf.end() || pa->second.second != pb->second.second) continue;
                if (pa->second.first == pb->second.first) continue;                       // same parent: listed there, judged by the container check
                const std::string &slot = pa->second.second; long par = pa->second.first;
                if (slot != "sections" && slot != "props" && slot != "sources" && slot != "arrays" && slot != "frames" && slot != "tags" && slot != "mtags" && slot != "groups") continue;
                bool got = false;
                try {
                    const Ent &x = b.second;      // a handle of another entity of the same kind, owned by another parent
                    if (par == 0) { if (slot == "sections") got = s.f.hasSection(x.section); else continue; }
                    else {
                        auto ph = w.fresh.find(par); if (ph == w.fresh.end()) continue;
                        const Ent &P = ph->second;
                        if (slot == "sections") got = P.section.hasSection(x.section);
                        else if (slot == "props") got = P.section.hasProperty(x.prop);
                        else if (slot == "sources") got = P.kind == "block" ? P.block.hasSource(x.source) : P.source.hasSource(x.source);
                        else if (slot == "arrays") got = P.block.hasDataArray(x.array);
                        else if (slot == "frames") got = P.block.hasDataFrame(x.frame);
                        else if (slot == "tags") got = P.block.hasTag(x.tag);
                        else if (slot == "mtags") got = P.block.hasMultiTag(x.mtag);
                        else if (slot == "groups") got = P.block.hasGroup(x.group);
                    }
                    asked++;
                } catch (const std::exception &) { continue; }
                if (got) o["issues"].push_back("has(handle) is true for a handle of another entity (eid " + std::to_string(b.first) + ") owned by another parent, asked of the parent of eid " + std::to_string(a.first) + " (" + slot + ")");
            }
        }
        // descriptor handles kept from the append calls against fresh look-ups of the same descriptors
        for (auto &kd : s.keptDims) {
            auto fr = s.fresh.find(kd.first);
            if (fr == s.fresh.end() || fr->second.kind != "array" || kd.second.empty()) continue;     // the array is gone: nothing to compare with
            try {
                std::vector<nix::Dimension> ds = fr->second.array.dimensions();
                if (ds.size() < kd.second.size()) { o["issues"].push_back("array eid " + std::to_string(kd.first) + " has fewer descriptors than were appended in this session"); continue; }
                size_t off = ds.size() - kd.second.size();
                for (size_t i = 0; i < kd.second.size(); i++) {
                    nix::Dimension d = ds[off + i];
                    Session::KDim q; nix::DimensionType dt = d.dimensionType();
                    q.k = dt == nix::DimensionType::Set ? "set" : dt == nix::DimensionType::Sample ? "sampled" : dt == nix::DimensionType::Range ? "range" : "frame";
                    if (q.k == "set") q.se = std::make_shared<nix::SetDimension>(d.asSetDimension());
                    else if (q.k == "sampled") q.sa = std::make_shared<nix::SampledDimension>(d.asSampledDimension());
                    else if (q.k == "range") q.ra = std::make_shared<nix::RangeDimension>(d.asRangeDimension());
                    else q.fr = std::make_shared<nix::DataFrameDimension>(d.asDataFrameDimension());
                    json a = keptDimView(kd.second[i]), b = keptDimView(q);
                    if (a != b) o["issues"].push_back("the handle kept from appending descriptor " + std::to_string(off + i + 1) + " of array eid " + std::to_string(kd.first) +
                                                      " shows another state than a fresh look-up: " + firstDiff(b, a));
                }
            } catch (const std::exception &ex) { o["issues"].push_back(std::string("comparing kept descriptor handles threw: ") + ex.what()); }
        }
    }
    for (auto &x : s.carried) o["issues"].push_back(x);
    for (long eid : s.retainedOrder) {
        Ent &e = s.retained[eid];
        bool valid;
        if (s.open) {
            try { valid = e.valid(); } catch (...) { valid = false; }
            // a handle that claims to be valid must still denote the same entity (ids never change)
            if (valid) { try { if (e.id() != s.idOf[eid]) o["issues"].push_back("retained handle changed its id: eid " + std::to_string(eid)); } catch (...) {} }
            // a handle the client kept and a fresh look-up of the same entity must show the same state
            auto fr = s.fresh.find(eid);
            if (valid && fr != s.fresh.end()) {
                json a = viewOf(e), b = viewOf(fr->second);
                if (a != b) o["issues"].push_back("a retained handle of eid " + std::to_string(eid) + " shows a different state than a fresh look-up: " + firstDiff(b, a));
                auto st = s.second.find(eid);
                if (st != s.second.end()) { json c2 = viewOf(st->second); if (c2 != b) o["issues"].push_back("the second handle of eid " + std::to_string(eid) + " shows a different state than a fresh look-up: " + firstDiff(b, c2)); }
            }
        } else {
            // after close: every earlier handle must fail with an exception (getter and mutator)
            bool g = false, m = false;
            try { (void) e.id(); (void) e.name(); } catch (...) { g = true; }
            try { e.touch(); } catch (...) { m = true; }
            valid = !(g && m);
        }
        o["handles"].push_back({{"eid", eid}, {"valid", valid ? "yes" : "no"}});
    }
    return o;
}

// ------------------------------------------------------------------ executor
nix::LinkType ltOf(long v) { return v == 0 ? nix::LinkType::Tagged : v == 1 ? nix::LinkType::Untagged : nix::LinkType::Indexed; }

// ballast next to the model's entities (see Session::K)
void addBallast(Session &s, Ent &made) {
    if (s.K <= 0) return;
    auto nm = [](const char *p, long k) { return std::string("zz-") + p + "-" + std::to_string(k); };
    if (made.kind == "file") {
        for (long k = 0; k < s.K; k++) { s.ballast.insert(s.f.createBlock(nm("b", k), "ballast").id()); s.ballast.insert(s.f.createSection(nm("s", k), "ballast").id()); }
    } else if (made.kind == "block") {
        for (long k = 0; k < s.K; k++) {
            s.ballast.insert(made.block.createDataArray(nm("a", k), "ballast", nix::DataType::Double, nix::NDSize({1})).id());
            s.ballast.insert(made.block.createSource(nm("src", k), "ballast").id());
            if (k % 2 == 0) { s.ballast.insert(made.block.createTag(nm("t", k), "ballast", {1.0}).id()); s.ballast.insert(made.block.createGroup(nm("g", k), "ballast").id()); }
        }
    } else if (made.kind == "section") {
        for (long k = 0; k < s.K; k++) { s.ballast.insert(made.section.createProperty(nm("p", k), nix::Variant(1.0)).id()); s.ballast.insert(made.section.createSection(nm("s", k), "ballast").id()); }
    } else if (made.kind == "source") {
        for (long k = 0; k < s.K; k++) s.ballast.insert(made.source.createSource(nm("src", k), "ballast").id());
    }
}

void doCreate(Ctx &c, Session &s, const json &g, long neweid, const std::string &nameOverride, const std::string &typeOverride, bool useOverride) {
    long p = g["p"]; std::string slot = g["slot"]; long x = g["t"]; long v = g["v"];
    std::string name = useOverride ? nameOverride : s.dict.name(g["n"]);
    std::string type = useOverride ? typeOverride : typeOf("t1");
    Ent made;
    if (slot == "blocks") made = mk(s.f.createBlock(name, type));
    else if (slot == "sections") made = (p == 0) ? mk(s.f.createSection(name, type)) : mk(handleOf(s, p).section.createSection(name, type));
    else if (slot == "props") made = mk(handleOf(s, p).section.createProperty(name, nix::Variant(0.5)));
    else if (slot == "sources") { Ent &pe = handleOf(s, p); made = pe.kind == "block" ? mk(pe.block.createSource(name, type)) : mk(pe.source.createSource(name, type)); }
    else if (slot == "arrays") made = mk(handleOf(s, p).block.createDataArray(name, type, nix::DataType::Double, nix::NDSize({(nix::ndsize_t) (v == 1 ? 2 : 3)})));
    else if (slot == "frames") { std::vector<nix::Column> cols = {{"c0", "", nix::DataType::Double}, {"c1", "mV", nix::DataType::Int64}};
                                 made = mk(handleOf(s, p).block.createDataFrame(name, type, cols)); }
    else if (slot == "tags") made = mk(handleOf(s, p).block.createTag(name, type, {1.0}));
    else if (slot == "groups") made = mk(handleOf(s, p).block.createGroup(name, type));
    else if (slot == "mtags") {
        nix::DataArray pos;
        if (x == FOREIGN) { ensureForeign(c, s); pos = s.fa; } else pos = handleOf(s, x).array;
        made = mk(handleOf(s, p).block.createMultiTag(name, type, pos));
    } else if (slot == "features") {
        nix::DataArray d;
        if (x == FOREIGN) { ensureForeign(c, s); d = s.fa; } else d = handleOf(s, x).array;
        Ent &pe = handleOf(s, p);
        made = pe.kind == "tag" ? mk(pe.tag.createFeature(d, ltOf(v == 1 ? 0 : 2))) : mk(pe.mtag.createFeature(d, ltOf(v == 1 ? 0 : 2)));
    } else throw std::runtime_error("harness: unknown slot " + slot);
    if (neweid > 0) {
        bindNew(s, neweid, made);
        // the second handle: the same entity looked up by id through its parent
        try {
            std::string id = made.id(); Ent two;
            if (slot == "blocks") two = mk(s.f.getBlock(id));
            else if (slot == "sections") two = (p == 0) ? mk(s.f.getSection(id)) : mk(s.retained.count(p) ? s.retained[p].section.getSection(id) : handleOf(s, p).section.getSection(id));
            else {
                Ent &pe = s.retained.count(p) ? s.retained[p] : handleOf(s, p);
                if (slot == "props") two = mk(pe.section.getProperty(id));
                else if (slot == "sources") two = pe.kind == "block" ? mk(pe.block.getSource(id)) : mk(pe.source.getSource(id));
                else if (slot == "arrays") two = mk(pe.block.getDataArray(id));
                else if (slot == "frames") two = mk(pe.block.getDataFrame(id));
                else if (slot == "tags") two = mk(pe.block.getTag(id));
                else if (slot == "mtags") two = mk(pe.block.getMultiTag(id));
                else if (slot == "groups") two = mk(pe.block.getGroup(id));
                else if (slot == "features") two = pe.kind == "tag" ? mk(pe.tag.getFeature(id)) : mk(pe.mtag.getFeature(id));
            }
            if (!two.kind.empty()) s.second[neweid] = two;
        } catch (...) { /* no second handle: the look-up itself is judged by the observer */ }
        addBallast(s, made);
    }
}

bool doDelete(Session &s, const json &g) {
    long p = g["p"], cid = g["t"]; std::string slot = g["slot"], by = g["by"];
    std::string id = s.idOf.at(cid);
    Ent *ch = nullptr;
    if (by == "handle") ch = &s.retained.at(cid);
    std::string key = id;
    if (by == "name") key = handleOf(s, cid).name();
    if (slot == "blocks") return by == "handle" ? s.f.deleteBlock(ch->block) : s.f.deleteBlock(key);
    if (slot == "sections") { if (p == 0) return by == "handle" ? s.f.deleteSection(ch->section) : s.f.deleteSection(key);
                              nix::Section &ps = handleOf(s, p).section; return by == "handle" ? ps.deleteSection(ch->section) : ps.deleteSection(key); }
    if (slot == "props") { nix::Section &ps = handleOf(s, p).section; return by == "handle" ? ps.deleteProperty(ch->prop) : ps.deleteProperty(key); }
    if (slot == "sources") { Ent &pe = handleOf(s, p);
        if (pe.kind == "block") return by == "handle" ? pe.block.deleteSource(ch->source) : pe.block.deleteSource(key);
        return by == "handle" ? pe.source.deleteSource(ch->source) : pe.source.deleteSource(key); }
    if (slot == "features") { Ent &pe = handleOf(s, p);
        if (pe.kind == "tag") return by == "handle" ? pe.tag.deleteFeature(ch->feature) : pe.tag.deleteFeature(key);
        return by == "handle" ? pe.mtag.deleteFeature(ch->feature) : pe.mtag.deleteFeature(key); }
    nix::Block &b = handleOf(s, p).block;
    if (slot == "arrays") return by == "handle" ? b.deleteDataArray(ch->array) : b.deleteDataArray(key);
    if (slot == "frames") return by == "handle" ? b.deleteDataFrame(ch->frame) : b.deleteDataFrame(key);
    if (slot == "tags") return by == "handle" ? b.deleteTag(ch->tag) : b.deleteTag(key);
    if (slot == "mtags") return by == "handle" ? b.deleteMultiTag(ch->mtag) : b.deleteMultiTag(key);
    if (slot == "groups") return by == "handle" ? b.deleteGroup(ch->group) : b.deleteGroup(key);
    throw std::runtime_error("harness: delete in unknown slot " + slot);
}

void doLink(Ctx &c, Session &s, const json &g, bool add) {
    long h = g["p"], t = g["t"]; std::string slot = g["slot"], by = g["by"];
    Ent &he = handleOf(s, h);
    Ent te; std::string tid;
    if (t == FOREIGN) {
        ensureForeign(c, s);
        te = slot == "esources" ? mk(s.fsrc) : slot == "gframes" ? mk(s.ffr) : slot == "gtags" ? mk(s.ftag) : slot == "gmtags" ? mk(s.fmtag) : mk(s.fa);
        tid = te.id();
    } else { te = (by == "handle") ? s.retained.at(t) : handleOf(s, t); tid = s.idOf.at(t); }
    bool H = by == "handle";
    if (slot == "refs") {
        if (he.kind == "tag") { if (add) { if (H) he.tag.addReference(te.array); else he.tag.addReference(tid); } else { if (H) he.tag.removeReference(te.array); else he.tag.removeReference(tid); } }
        else { if (add) { if (H) he.mtag.addReference(te.array); else he.mtag.addReference(tid); } else { if (H) he.mtag.removeReference(te.array); else he.mtag.removeReference(tid); } }
    } else if (slot == "esources") {
#define ES(member) { if (add) { if (H) he.member.addSource(te.source); else he.member.addSource(tid); } else { if (H) he.member.removeSource(te.source); else he.member.removeSource(tid); } }
        if (he.kind == "array") ES(array) else if (he.kind == "frame") ES(frame) else if (he.kind == "tag") ES(tag) else if (he.kind == "mtag") ES(mtag) else ES(group)
#undef ES
    } else if (slot == "garrays") { if (add) { if (H) he.group.addDataArray(te.array); else he.group.addDataArray(tid); } else { if (H) he.group.removeDataArray(te.array); else he.group.removeDataArray(tid); } }
    else if (slot == "gframes") { if (add) { if (H) he.group.addDataFrame(te.frame); else he.group.addDataFrame(tid); } else { if (H) he.group.removeDataFrame(te.frame); else he.group.removeDataFrame(tid); } }
    else if (slot == "gtags") { if (add) { if (H) he.group.addTag(te.tag); else he.group.addTag(tid); } else { if (H) he.group.removeTag(te.tag); else he.group.removeTag(tid); } }
    else if (slot == "gmtags") { if (add) { if (H) he.group.addMultiTag(te.mtag); else he.group.addMultiTag(tid); } else { if (H) he.group.removeMultiTag(te.mtag); else he.group.removeMultiTag(tid); } }
    else throw std::runtime_error("harness: unknown link slot " + slot);
}

// vector setters: references(vector), sources(vector), group members(vector)
void doSetLinks(Ctx &c, Session &s, const json &g, const json &q) {
    long h = g["p"]; std::string slot = g["slot"];
    Ent &he = handleOf(s, h);
    std::vector<Ent> ts;
    for (auto &x : q) { long t = x;
        if (t == FOREIGN) { ensureForeign(c, s); ts.push_back(slot == "esources" ? mk(s.fsrc) : slot == "gframes" ? mk(s.ffr) : slot == "gtags" ? mk(s.ftag) : slot == "gmtags" ? mk(s.fmtag) : mk(s.fa)); }
        else if (t == UNINIT) ts.push_back(slot == "esources" ? mk(nix::Source()) : slot == "gframes" ? mk(nix::DataFrame()) : slot == "gtags" ? mk(nix::Tag()) : slot == "gmtags" ? mk(nix::MultiTag()) : mk(nix::DataArray()));
        else ts.push_back(handleOf(s, t)); }
    auto arrays = [&] { std::vector<nix::DataArray> v; for (auto &e : ts) v.push_back(e.array); return v; };
    auto sources = [&] { std::vector<nix::Source> v; for (auto &e : ts) v.push_back(e.source); return v; };
    if (slot == "refs") { if (he.kind == "tag") he.tag.references(arrays()); else he.mtag.references(arrays()); }
    else if (slot == "esources") { if (he.kind == "array") he.array.sources(sources()); else if (he.kind == "frame") he.frame.sources(sources()); else if (he.kind == "tag") he.tag.sources(sources()); else if (he.kind == "mtag") he.mtag.sources(sources()); else he.group.sources(sources()); }
    else if (slot == "garrays") he.group.dataArrays(arrays());
    else if (slot == "gframes") { std::vector<nix::DataFrame> v; for (auto &e : ts) v.push_back(e.frame); he.group.dataFrames(v); }
    else if (slot == "gtags") { std::vector<nix::Tag> v; for (auto &e : ts) v.push_back(e.tag); he.group.tags(v); }
    else if (slot == "gmtags") { std::vector<nix::MultiTag> v; for (auto &e : ts) v.push_back(e.mtag); he.group.multiTags(v); }
    else throw std::runtime_error("harness: unknown link slot " + slot);
}

void doSetOne(Ctx &c, Session &s, const json &g, long variant) {
    long h = g["p"], t = g["t"]; std::string slot = g["slot"];
    Ent &he = handleOf(s, h);
    if (slot == "metadata") {
        nix::Section sec; std::string sid;
        if (t == FOREIGN) { ensureForeign(c, s); sec = s.fs; sid = sec.id(); } else if (t != NONE) { sec = handleOf(s, t).section; sid = s.idOf.at(t); }
        bool byId = (variant % 2 == 1) && t != NONE;
#define MD(member) { if (t == NONE) he.member.metadata(nix::none); else if (byId) he.member.metadata(sid); else he.member.metadata(sec); }
        if (he.kind == "block") MD(block) else if (he.kind == "source") MD(source) else if (he.kind == "array") MD(array) else if (he.kind == "frame") MD(frame)
        else if (he.kind == "tag") MD(tag) else if (he.kind == "mtag") MD(mtag) else MD(group)
#undef MD
        return;
    }
    if (slot == "link") {
        if (t == NONE) { he.section.link(nix::none); return; }
        nix::Section sec; if (t == FOREIGN) { ensureForeign(c, s); sec = s.fs; } else sec = handleOf(s, t).section;
        if (variant % 2 == 1) he.section.link(sec.id()); else he.section.link(sec);
        return;
    }
    nix::DataArray a;
    if (t == FOREIGN) { ensureForeign(c, s); a = s.fa; } else if (t != NONE) a = handleOf(s, t).array;
    bool byId = (variant % 2 == 1) && t != NONE;
    if (slot == "positions") { if (byId) he.mtag.positions(a.id()); else he.mtag.positions(a); }
    else if (slot == "extents") { if (t == NONE) he.mtag.extents(nix::none); else if (byId) he.mtag.extents(a.id()); else he.mtag.extents(a); }
    else if (slot == "data") { if (byId) he.feature.data(a.id()); else he.feature.data(a); }
    else throw std::runtime_error("harness: unknown single-link slot " + slot);
}

void doSetType(Session &s, const json &g) {
    Ent &e = handleOf(s, g["p"]); std::string t = typeOf(g["n"]);
    if (e.kind == "block") e.block.type(t); else if (e.kind == "section") e.section.type(t); else if (e.kind == "source") e.source.type(t);
    else if (e.kind == "array") e.array.type(t); else if (e.kind == "frame") e.frame.type(t); else if (e.kind == "tag") e.tag.type(t);
    else if (e.kind == "mtag") e.mtag.type(t); else if (e.kind == "group") e.group.type(t); else throw std::runtime_error("harness: SetType on " + e.kind);
}
void doSetDef(Session &s, const json &g) {
    Ent &e = handleOf(s, g["p"]); long d = g["v"];
#define DF(member) { if (d == 0) e.member.definition(nix::none); else e.member.definition(std::string(DEFTEXT)); }
    if (e.kind == "block") DF(block) else if (e.kind == "section") DF(section) else if (e.kind == "source") DF(source) else if (e.kind == "array") DF(array)
    else if (e.kind == "frame") DF(frame) else if (e.kind == "tag") DF(tag) else if (e.kind == "mtag") DF(mtag) else if (e.kind == "group") DF(group)
    else if (e.kind == "prop") DF(prop) else throw std::runtime_error("harness: SetDef on " + e.kind);
#undef DF
}

void doAppendDim(Session &s, const json &g) {
    long p = g["p"];
    nix::DataArray &a = handleOf(s, p).array; std::string k = g["slot"]; long f = g["t"];
    Session::KDim q; q.k = k;
    if (k == "set") q.se = std::make_shared<nix::SetDimension>(a.appendSetDimension({"a", "b"}));
    else if (k == "sampled") q.sa = std::make_shared<nix::SampledDimension>(a.appendSampledDimension(0.5, "time", "ms", 1.0));
    else if (k == "range") q.ra = std::make_shared<nix::RangeDimension>(a.appendRangeDimension({1.0, 2.0, 3.5}, "dist", "m"));
    else q.fr = std::make_shared<nix::DataFrameDimension>(a.appendDataFrameDimension(handleOf(s, f).frame, 0u));
    s.keptDims[p].push_back(q);
}
// what a kept descriptor handle shows (frame dimensions: the frame it resolves to, by id; "none" when it has none / throws)
json keptDimView(const Session::KDim &q) {
    json v = {{"k", q.k}};
    try {
        if (q.se) { v["labels"] = q.se->labels(); }
        else if (q.sa) { v["interval"] = q.sa->samplingInterval(); v["unit"] = q.sa->unit() ? *q.sa->unit() : ""; v["label"] = q.sa->label() ? *q.sa->label() : ""; }
        else if (q.ra) { v["ticks"] = q.ra->ticks(); v["unit"] = q.ra->unit() ? *q.ra->unit() : ""; }
        else if (q.fr) {
            std::string fid = "none";
            try { nix::DataFrame df = q.fr->data(); if (df) fid = df.id(); } catch (const std::exception &) {}
            v["frame"] = fid;
            if (fid != "none") { try { v["label0"] = q.fr->label(0u); v["size"] = (long) q.fr->size(); } catch (const std::exception &ex) { v["threw"] = ex.what(); } }
        }
    } catch (const std::exception &ex) { v["threw"] = ex.what(); }
    return v;
}

nix::FileMode modeOf(const std::string &m) { return m == "ro" ? nix::FileMode::ReadOnly : m == "rw" ? nix::FileMode::ReadWrite : nix::FileMode::Overwrite; }

// Handles that are not entities of the model but are obtained from them: dimension descriptors (generic and typed), data
// views, and the data side of properties, frames and features.  C11 speaks of "any number of entity handles (blocks, arrays,
// dimensions, tags, sections, properties, data views) still alive when close is called": each of them must fail with an
// exception afterwards, on a getter that needs the file and on a mutator.
struct Aux { std::string what; std::function<void()> get, mut; };
std::vector<Aux> collectAux(Session &s) {
    std::vector<Aux> out;
    for (auto &p : s.fresh) {
        if (out.size() >= 40) break;
        Ent &e = p.second;
        std::string tag = e.kind + " eid " + std::to_string(p.first);
        try {
            if (e.kind == "array") {
                nix::DataArray a = e.array;
                for (auto &d : a.dimensions()) {
                    nix::Dimension dg = d;
                    std::string w = "dimension " + std::to_string(d.index()) + " of " + tag;
                    if (d.dimensionType() == nix::DimensionType::Sample) {
                        nix::SampledDimension sd = d.asSampledDimension();
                        out.push_back({w + " (sampled)", [sd]() { (void) sd.samplingInterval(); (void) sd.label(); }, [sd]() mutable { sd.label("x"); }});
                        out.push_back({w + " (generic)", [dg]() { (void) dg.asSampledDimension().samplingInterval(); }, [dg]() mutable { dg.asSampledDimension().offset(1.0); }});
                    } else if (d.dimensionType() == nix::DimensionType::Range) {
                        nix::RangeDimension rd = d.asRangeDimension();
                        out.push_back({w + " (range)", [rd]() { (void) rd.ticks(); }, [rd]() mutable { rd.unit("s"); }});
                    } else if (d.dimensionType() == nix::DimensionType::Set) {
                        nix::SetDimension st = d.asSetDimension();
                        out.push_back({w + " (set)", [st]() { (void) st.labels(); }, [st]() mutable { st.labels(std::vector<std::string>{"q"}); }});
                    } else if (d.dimensionType() == nix::DimensionType::DataFrame) {
                        nix::DataFrameDimension fd = d.asDataFrameDimension();
                        out.push_back({w + " (data frame)", [fd]() { (void) fd.columnIndex(); }, [fd]() { (void) fd.data(); }});
                    }
                }
                nix::NDSize ext = a.dataExtent();
                if (ext.size() > 0 && ext.nelms() > 0) {
                    nix::NDSize off(ext.size(), 0);
                    auto dv = std::make_shared<nix::DataView>(a, ext, off);
                    size_t n = (size_t) ext.nelms();
                    out.push_back({"data view of " + tag,
                                   [dv, ext, off, n]() { std::vector<double> b(n); dv->getData(nix::DataType::Double, b.data(), ext, off); },
                                   [dv, ext, off, n]() { std::vector<double> b(n, 1.0); dv->setData(nix::DataType::Double, b.data(), ext, off); }});
                    out.push_back({"data of " + tag,
                                   [a, ext, off, n]() { std::vector<double> b(n); a.getData(nix::DataType::Double, b.data(), ext, off); },
                                   [a, ext, off, n]() mutable { std::vector<double> b(n, 1.0); a.setData(nix::DataType::Double, b.data(), ext, off); }});
                }
            } else if (e.kind == "prop") {
                nix::Property pr = e.prop;
                out.push_back({"values of " + tag, [pr]() { (void) pr.values(); }, [pr]() mutable { pr.values({nix::Variant(2.5)}); }});
            } else if (e.kind == "frame") {
                nix::DataFrame fr = e.frame;
                out.push_back({"rows of " + tag, [fr]() { (void) fr.rows(); (void) fr.columns(); }, [fr]() mutable { fr.rows(fr.rows() + 1); }});
            } else if (e.kind == "feature") {
                nix::Feature ft = e.feature;
                out.push_back({"data of " + tag, [ft]() { (void) ft.data(); }, [ft]() mutable { ft.linkType(nix::LinkType::Untagged); }});
            }
        } catch (...) { /* collecting is best effort: what cannot be obtained is not judged */ }
    }
    return out;
}

// "any number of entity handles": the client looks the entities up again and again and keeps every handle (each look-up
// opens HDF5 objects of its own), so that close() has a few hundred open objects to deal with
std::vector<Ent> collectMany(Session &s) {
    std::vector<Ent> many;
    try {
        for (int rep = 0; rep < 60 && many.size() < 240; rep++) {
            size_t before = many.size();
            for (auto &b : s.f.blocks()) {
                many.push_back(mk(b));
                for (auto &x : b.dataArrays()) many.push_back(mk(x));
                for (auto &x : b.tags()) many.push_back(mk(x));
                for (auto &x : b.multiTags()) many.push_back(mk(x));
                for (auto &x : b.sources()) many.push_back(mk(x));
                for (auto &x : b.groups()) many.push_back(mk(x));
                for (auto &x : b.dataFrames()) many.push_back(mk(x));
            }
            for (auto &x : s.f.sections()) { many.push_back(mk(x)); for (auto &p : x.properties()) many.push_back(mk(p)); }
            if (many.size() == before) break;
        }
    } catch (...) {}
    return many;
}

void closeSession(Session &s) {
    std::vector<Aux> aux;
    std::vector<Ent> many;
    // (on the lines that run unobserved - see touchThisLine - the session is closed without looking at it first)
    if (s.open && s.lookBeforeClose) { json pre = observe(s); for (auto &x : pre["issues"]) { std::string m = x.get<std::string>(); if (m.rfind("before close: ", 0) != 0 && s.carried.size() < 10) s.carried.push_back("before close: " + m); }
                  if (!getenv("VERIF_NO_AUX")) aux = collectAux(s); if (!getenv("VERIF_NO_MANY") && ((s.K == 0 && s.manySel && s.fresh.size() <= 8) || getenv("VERIF_FORCE_MANY"))) many = collectMany(s); }     // (not on lines with ballast: see DESIGN section 8, "many handles + ballast")
    // on every third line (by content hash): a SECOND File object on the same path is open in the process while
    // the session's File is closed; it is closed right afterwards (or right before).  Once both have returned from close() the file
    // must be released like after any close (descriptor check of the observer, reopen in every mode by the following steps).
    s.closes++;
    bool two = s.twoFiles && !getenv("VERIF_NO_TWOFILES");
    nix::File other;
    if (two) { try { other = nix::File::open(s.path, nix::FileMode::ReadOnly); (void) other.blockCount(); } catch (const std::exception &ex) { s.carried.push_back(std::string("a second File object on the path of the open session could not be opened read-only: ") + ex.what()); two = false; } }
    if (two && s.closes % 2 == 0) { try { other.close(); } catch (const std::exception &ex) { s.carried.push_back(std::string("close() of the second File object threw: ") + ex.what()); } }
    s.f.close(); s.open = false;
    if (getenv("VERIF_DEBUG_CLOSE")) {
        auto cnt = [](unsigned t) { return (long) H5Fget_obj_count((hid_t) H5F_OBJ_ALL, t); };
        fprintf(stderr, "DEBUGCLOSE files=%ld groups=%ld dsets=%ld types=%ld attrs=%ld foreign=%d K=%ld\n", cnt(H5F_OBJ_FILE), cnt(H5F_OBJ_GROUP), cnt(H5F_OBJ_DATASET), cnt(H5F_OBJ_DATATYPE), cnt(H5F_OBJ_ATTR), (int) s.haveForeign, s.K);
    }
    if (two && s.closes % 2 != 0) { try { other.close(); } catch (const std::exception &ex) { s.carried.push_back(std::string("close() of the second File object threw: ") + ex.what()); } }
    other = nix::File();
    size_t alive = 0;
    if (!getenv("VERIF_NO_POKE")) for (auto &e : many) {
        bool g = false, m = false;
        try { (void) e.id(); (void) e.name(); } catch (...) { g = true; }
        try { e.touch(); } catch (...) { m = true; }
        if (!(g && m)) alive++;
    }
    if (alive > 0) s.carried.push_back("after close: " + std::to_string(alive) + " of " + std::to_string(many.size()) + " handles obtained by repeated look-ups still work");
    for (auto &x : aux) {
        bool g = false, m = false;
        try { x.get(); } catch (...) { g = true; }
        try { x.mut(); } catch (...) { m = true; }
        if (!(g && m) && s.carried.size() < 14)
            s.carried.push_back("after close: " + x.what + (g ? "" : ": getter still works") + (m ? "" : ": mutator still works"));
    }
}

void openSession(Session &s, const std::string &m) {
    s.roHash = (m == "ro") ? fileHash(s.path) : "";
    s.f = nix::File::open(s.path, modeOf(m));
    s.open = true; s.mode = (m == "ro") ? "ro" : "rw";
    s.retained.clear(); s.retainedOrder.clear(); s.fresh.clear(); s.keptDims.clear(); s.second.clear();
}

// executes one step; returns the outcome class
std::string doStep(Ctx &c, Session &s, const json &st, long variant) {
    std::string a = st["a"]; const json &g = st["args"];
    long neweid = st.value("new", 0L);
    std::string what;
    std::string r;
    if (a == "Create") r = outcome([&] { doCreate(c, s, g, neweid, "", "", false); }, &what);
    else if (a == "CreateBad") {
        std::string why = g["n"];
        std::string nm = why == "emptyname" ? "" : why == "slashname" ? "a/b" : "valid-name-" + std::to_string(variant);
        std::string ty = why == "emptytype" ? "" : "type.one";
        r = outcome([&] { doCreate(c, s, g, 0, nm, ty, true); }, &what);
    }
    else if (a == "Delete" || a == "DeleteAbsent") r = outcome([&] { doDelete(s, g); }, &what);
    else if (a == "AddLink") r = outcome([&] { doLink(c, s, g, true); }, &what);
    else if (a == "RemoveLink") r = outcome([&] { doLink(c, s, g, false); }, &what);
    else if (a == "SetLinks") r = outcome([&] { doSetLinks(c, s, g, st["out"]); }, &what);
    else if (a == "SetOne") r = outcome([&] { doSetOne(c, s, g, variant); }, &what);
    else if (a == "SetAttr") r = outcome([&] { applyAttr(handleOf(s, g["p"]), g["v"]); }, &what);
    else if (a == "SetType") r = outcome([&] { doSetType(s, g); }, &what);
    else if (a == "SetDef") r = outcome([&] { doSetDef(s, g); }, &what);
    else if (a == "AppendDim") r = outcome([&] { doAppendDim(s, g); }, &what);
    else if (a == "DeleteDims") r = outcome([&] { handleOf(s, g["p"]).array.deleteDimensions(); s.keptDims.erase(g["p"].get<long>()); }, &what);
    else if (a == "Flush") r = outcome([&] { if (!s.f.flush()) throw std::runtime_error("flush returned false"); }, &what);
    else if (a == "Close") r = outcome([&] { closeSession(s); }, &what);
    else if (a == "Open") r = outcome([&] { openSession(s, g["n"]); }, &what);
    else if (a == "QueryAll") r = "ok";      // the queries themselves are run by the caller (results are compared one by one)
    else throw std::runtime_error("harness: unknown action " + a);
    return r;
}

// ------------------------------------------------------------------ queries (C20)
template <typename T> typename nix::util::Filter<T>::type filterOf(Session &s, const json &flt) {
    std::string f = flt["f"];
    if (f == "id") return nix::util::IdFilter<T>(s.idOf.at(flt["x"].get<long>()));
    if (f == "ids") return nix::util::IdsFilter<T>(std::vector<std::string>{s.idOf.at(flt["x"].get<long>()), s.idOf.at(flt["y"].get<long>())});
    if (f == "name") return nix::util::NameFilter<T>(s.dict.name(flt["n"]));
    if (f == "type") return nix::util::TypeFilter<T>(typeOf(flt["n"]));
    return nix::util::AcceptAll<T>();
}
template <typename T> json eidsOf(Session &s, const std::vector<T> &v) {
    json o = json::array();
    for (auto &e : v) { if (s.ballast.count(e.id())) continue; auto it = s.eidOfId.find(e.id()); o.push_back(it == s.eidOfId.end() ? -100L : it->second); }
    return o;
}
// runs every query of the emitted QueryAll step; returns the first disagreement (or null)
json runQueries(Session &s, const json &queries, long &count) {
    for (const auto &q : queries) {
        std::string k = q["k"]; long e = q["e"]; long d = q["d"];
        size_t depth = d < 0 ? std::numeric_limits<size_t>::max() : (size_t) d;
        json got; bool ordered = true;
        std::string what;
        std::string o = outcome([&] {
            if (k == "findSections") got = d < 0 && (count % 2) ? eidsOf(s, handleOf(s, e).section.findSections(filterOf<nix::Section>(s, q["flt"])))
                                                                   : eidsOf(s, handleOf(s, e).section.findSections(filterOf<nix::Section>(s, q["flt"]), depth));
            else if (k == "fileFindSections") { got = eidsOf(s, s.f.findSections(filterOf<nix::Section>(s, q["flt"]), depth)); ordered = false; }
            else if (k == "findSources") got = eidsOf(s, handleOf(s, e).source.findSources(filterOf<nix::Source>(s, q["flt"]), depth));
            else if (k == "blockFindSources") { got = eidsOf(s, handleOf(s, e).block.findSources(filterOf<nix::Source>(s, q["flt"]), depth)); ordered = false; }
            else if (k == "inheritedProperties") got = eidsOf(s, handleOf(s, e).section.inheritedProperties());
            else if (k == "referringBlocks") { got = eidsOf(s, handleOf(s, e).section.referringBlocks()); ordered = false; }
            else if (k == "referringDataArrays") { got = eidsOf(s, handleOf(s, e).section.referringDataArrays()); ordered = false; }
            else if (k == "referringTags") { got = eidsOf(s, handleOf(s, e).section.referringTags()); ordered = false; }
            else if (k == "referringMultiTags") { got = eidsOf(s, handleOf(s, e).section.referringMultiTags()); ordered = false; }
            else if (k == "referringSources") { got = eidsOf(s, handleOf(s, e).section.referringSources()); ordered = false; }
            else if (k == "srcReferringDataArrays") { got = eidsOf(s, handleOf(s, e).source.referringDataArrays()); ordered = false; }
            else if (k == "srcReferringTags") { got = eidsOf(s, handleOf(s, e).source.referringTags()); ordered = false; }
            else if (k == "srcReferringMultiTags") { got = eidsOf(s, handleOf(s, e).source.referringMultiTags()); ordered = false; }
            else if (k == "parentSource") { nix::Source p = handleOf(s, e).source.parentSource(); got = json::array(); if (p) got.push_back(s.eidOfId.count(p.id()) ? s.eidOfId[p.id()] : -100L); }
            else throw std::runtime_error("harness: unknown query " + k);
        }, &what);
        count++;
        json want = q["out"];
        if (o != "ok") return json{{"query", q}, {"observed", "threw: " + what}};
        if (!ordered) {   // multi-root searches and back references: the same entities, each once (order not prescribed)
            std::vector<long> a(got.begin(), got.end()), b(want.begin(), want.end());
            std::sort(a.begin(), a.end()); std::sort(b.begin(), b.end());
            if (a != b) return json{{"query", q}, {"observed", got}};
        } else if (got != want) return json{{"query", q}, {"observed", got}};
    }
    return json();
}

// expected observation in the shape the observer produces
json normalise(json exp) {
    for (auto &e : exp["ents"]) {
        if (e["kids"].is_array()) e["kids"] = json::object();
        if (e["one"].is_array()) e["one"] = json::object();
    }
    exp["issues"] = json::array();
    return exp;
}

// handle validity that the property leaves open ("any") is not compared; handles the specification predicts
// to be kept "valid" by a persisting deleted holder ("pinned", known finding C04-zombie) are recorded
std::vector<std::string> g_known;
bool g_ignoreHandles = false;
void relax(json &exp, json &obs) {
    if (g_ignoreHandles) { exp["handles"] = json::array(); obs["handles"] = json::array(); return; }
    for (size_t i = 0; i < exp["handles"].size() && i < obs["handles"].size(); i++) {
        if (exp["handles"][i]["valid"] == "any") obs["handles"][i]["valid"] = "any";
        else if (exp["handles"][i]["valid"] == "pinned") {
            if (obs["handles"][i]["valid"] == "yes") g_known.push_back("C04-zombie");
            exp["handles"][i]["valid"] = obs["handles"][i]["valid"];
        }
    }
}

bool hasCrash(const json &rec) {
    for (auto &st : rec["pre"]) if (st["a"] == "Crash") return true;
    return rec["step"]["a"] == "Crash";
}

json handleInner(Ctx &c, const json &rec);
json handle(Ctx &c, const json &rec) {
    g_known.clear();
    g_ignoreHandles = c.opts.value("ignore_handles", false);
    json r;
    try { r = handleInner(c, rec); }
    catch (...) { if (const char *keep = getenv("VERIF_KEEP_BAD")) { std::string cmd = std::string("cp '") + c.path("file.nix") + "' '" + keep + "/bad-" + std::to_string(getpid()) + "-" + std::to_string(time(nullptr)) + ".nix'"; if (system(cmd.c_str())) {} } throw; }
    if (!g_known.empty()) r["known"] = g_known;
    return r;
}
json handleInner(Ctx &c, const json &rec) {
    Session s;
    s.path = c.path("file.nix");
    s.dict = dictFor(c.opts.value("names", c.seed));
    unlink(s.path.c_str());
    std::vector<json> all(rec["pre"].begin(), rec["pre"].end());
    all.push_back(rec["step"]);
    {   // ballast per line: fixed by the orchestrator, or (-1) rotating with the line's content so that a stored line replays alike
        long kb = c.opts.value("ballast", 0L);
        if (kb < 0) { std::string key = rec["pre"].dump() + rec["step"].dump(); unsigned long h = 1469598103934665603UL; for (unsigned char ch : key) { h ^= ch; h *= 1099511628211UL; }
                      static const long KS[] = {0, 0, 0, 0, 0, 9}; s.K = KS[h % 6]; }
        else s.K = kb;
        // ballast only on lines that never close and reopen the file within the process (see DESIGN section 8: with ballast, an
        // in-process close + reopen intermittently fails inside HDF5, also on the unchanged tree)
        bool reopens = c.opts.value("reopen_check", false);
        for (auto &st : all) { std::string a = st["a"]; if (a == "Close" || a == "Open" || a == "Crash") reopens = true; }
        if (reopens && !getenv("VERIF_FORCE_MANY")) s.K = 0;
    }
    // reading through the kept handles after every call is done on every other line only (by content hash): a read accessor with a
    // side effect can make a fault heal under observation, so half of the histories run unobserved until the judged step
    bool touchThisLine;
    { std::string key = rec["pre"].dump() + rec["step"].dump(); unsigned long h = 1469598103934665603UL; for (unsigned char ch : key) { h ^= ch; h *= 1099511628211UL; } touchThisLine = (h / 6) % 2 == 0; }
    s.lookBeforeClose = touchThisLine || !c.opts.value("touch_retained", false);
    { std::string key = rec["pre"].dump() + rec["step"].dump(); unsigned long h = 1469598103934665603UL; for (unsigned char ch : key) { h ^= ch; h *= 1099511628211UL; } s.manySel = (h / 36) % 4 == 0; }   // the many-handles collection: one line in four
    { std::string key = rec["pre"].dump() + rec["step"].dump(); unsigned long h = 1469598103934665603UL; for (unsigned char ch : key) { h ^= ch; h *= 1099511628211UL; }
      s.twoFiles = c.opts.value("two_files", false) && (h / 12) % 3 == 0; }
    Ent fileEnt; fileEnt.kind = "file";
    // Init: an open read-write session on a new, empty file
    s.f = nix::File::open(s.path, nix::FileMode::Overwrite);
    s.open = true; s.mode = "rw";
    addBallast(s, fileEnt);
    json result;
    size_t i = 0;
    while (i < all.size()) {
        // find next crash
        size_t ci = i; while (ci < all.size() && all[ci]["a"] != "Crash") ci++;
        if (ci < all.size()) {
            // the session object of the parent must not keep the file open while the child works on it
            bool wasOpen = s.open;
            if (wasOpen && i == 0) { s.f.close(); s.f = nix::File(); unlink(s.path.c_str()); }
            else if (wasOpen) { return json{{"v", "harness_exception"}, {"what", "crash after a parent-side open session is not supported"}}; }
            std::string side = c.path("crash-state.json");
            unlink(side.c_str());
            fflush(stdout);
            pid_t pid = fork();
            if (pid < 0) throw std::runtime_error("harness: fork failed");
            if (pid == 0) {
                int rc = 0;
                try {
                    if (i == 0) { s.f = nix::File::open(s.path, nix::FileMode::Overwrite); s.open = true; s.mode = "rw"; s.ballast.clear(); addBallast(s, fileEnt); }
                    for (size_t k = i; k < ci; k++) {
                        std::string r = doStep(c, s, all[k], (long) k);
                        if (r != all[k]["res"].get<std::string>()) { rc = 3; break; }
                    }
                    std::ofstream o(side); o << s.toJson().dump(); o.close();
                } catch (...) { rc = 4; }
                if (rc != 0) _exit(rc);
                kill(getpid(), SIGKILL);
                _exit(5);
            }
            int status = 0;
            waitpid(pid, &status, 0);
            if (!(WIFSIGNALED(status) && WTERMSIG(status) == SIGKILL))
                return json{{"v", "unjudgeable"}, {"what", "crash child did not reach the crash point"}, {"status", status}};
            std::ifstream in(side);
            json st; in >> st;
            s.fromJson(st);
            s.open = false; s.retained.clear(); s.retainedOrder.clear(); s.fresh.clear(); s.second.clear(); s.keptDims.clear(); s.f = nix::File();
            if (ci == all.size() - 1) {
                // the crash is the judged step: the model's post state is a closed session
                json exp = normalise(rec["post"]);
                json obs = observe(s);
                relax(exp, obs);
                std::string d = firstDiff(exp, obs);
                return d.empty() ? ok() : mismatch("obs:" + d, exp, obs);
            }
            i = ci + 1;
            continue;
        }
        // no crash ahead: run the remaining prefix, then the judged step
        for (; i + 1 < all.size(); i++) {
            g_phase = "prefix step " + std::to_string(i) + " " + all[i]["a"].get<std::string>(); std::string r = doStep(c, s, all[i], (long) i);
            if (r != all[i]["res"].get<std::string>())
                return json{{"v", "unjudgeable"}, {"what", "prefix step outcome differs"}, {"step", all[i]}, {"observed", r}};
            s.fresh.clear();              // fresh handles are looked up again on demand
            // the client reads through the handles it kept, after every call (whatever a handle remembers must stay right)
            if (c.opts.value("touch_retained", false) && touchThisLine && s.open)
                for (long eid : s.retainedOrder) { try { if (s.retained[eid].valid()) (void) viewOf(s.retained[eid]); } catch (...) {}
                                                   auto st = s.second.find(eid); if (st != s.second.end()) { try { if (st->second.valid()) (void) viewOf(st->second); } catch (...) {} } }
            if (s.open) for (auto &kd : s.keptDims) for (auto &q : kd.second) (void) keptDimView(q);
        }
        const json &st = all[i];
        std::string what;
        if (st["a"] == "QueryAll") {
            json before = observe(s);
            long nq = 0;
            json bad = runQueries(s, st["out"], nq);
            json after = observe(s);
            if (!bad.is_null()) { result = mismatch("query:" + bad["query"]["k"].get<std::string>(), bad["query"]["out"], bad["observed"]); result["query"] = bad["query"]; }
            else if (before != after) result = mismatch("query changed the file", before, after);
            else result = ok();
            result["n"] = nq;
            i++;
            continue;
        }
        g_phase = "step " + std::to_string(i) + " " + st["a"].get<std::string>();
        std::string r = doStep(c, s, st, (long) i);
        g_phase = "after step " + std::to_string(i) + " " + st["a"].get<std::string>();
        json exp = normalise(rec["post"]);
        if (r != st["res"].get<std::string>()) {
            json obs = observe(s);
            relax(exp, obs);
            result = mismatch("outcome", st["res"], r);
            result["obs_diff"] = firstDiff(exp, obs);
            result["obs"] = obs;
        } else {
            json obs = observe(s);
            relax(exp, obs);
            std::string d = firstDiff(exp, obs);
            if (!d.empty()) result = mismatch("obs:" + d, exp, obs);
            else if (c.opts.value("reopen_check", false) && s.open && st["a"] != "Open") {
                // additionally: what is visible after close + reopen (a half-written entity may only show up on disk)
                std::string m = s.mode;
                closeSession(s); openSession(s, m);
                json exp2 = exp; exp2["handles"] = json::array();
                json obs2 = observe(s);
                obs2["handles"] = json::array();
                std::string d2 = firstDiff(exp2, obs2);
                result = d2.empty() ? ok() : mismatch("reopen-obs:" + d2, exp2, obs2);
            } else result = ok();
        }
        i++;
    }
    if (s.open) { try { s.f.close(); } catch (...) {} }
    if (s.haveForeign) { try { s.ff.close(); } catch (...) {} }
    return result;
}

Reg reg("file", handle);

// ------------------------------------------------------------------ direction B: random driver
// Executes a random API program (not derived from the specification) and records one event per call at its
// return - also on the exception path: abstract call, outcome class, eid given to a newly created entity, and the
// complete projected state.  NixFileTrace.tla then decides whether every recorded step is a step of NixFile.
struct Rng { unsigned long long s; unsigned long long next() { s ^= s << 13; s ^= s >> 7; s ^= s << 17; return s; } long pick(long n) { return n <= 0 ? 0 : (long) (next() % (unsigned long long) n); } };

std::vector<std::string> ownSlots(const std::string &k) {
    if (k == "file") return {"blocks", "sections"}; if (k == "block") return {"arrays", "frames", "tags", "mtags", "groups", "sources"};
    if (k == "section") return {"sections", "props"}; if (k == "source") return {"sources"}; if (k == "tag" || k == "mtag") return {"features"}; return {};
}
std::vector<std::string> linkSlots(const std::string &k) {
    if (k == "tag" || k == "mtag") return {"refs", "esources"}; if (k == "array" || k == "frame") return {"esources"};
    if (k == "group") return {"esources", "garrays", "gframes", "gtags", "gmtags"}; return {};
}
std::vector<std::string> oneSlots(const std::string &k) {
    if (k == "mtag") return {"metadata", "positions", "extents"}; if (k == "feature") return {"data"}; if (k == "section") return {"link"};
    if (k == "block" || k == "source" || k == "array" || k == "frame" || k == "tag" || k == "group") return {"metadata"}; return {};
}
std::string linkKind(const std::string &s) { return s == "refs" || s == "garrays" ? "array" : s == "esources" ? "source" : s == "gframes" ? "frame" : s == "gtags" ? "tag" : "mtag"; }
std::string oneKind(const std::string &s) { return (s == "metadata" || s == "link") ? "section" : "array"; }

json driveHandle(Ctx &c, const json &rec) {
    Session s; s.path = c.path("drive.nix"); s.dict = dictFor(c.opts.value("names", c.seed));
    unlink(s.path.c_str());
    Rng rng{(unsigned long long) (rec.value("seed", 1L) * 2654435761ULL + 88172645463325252ULL)};
    long steps = rec.value("steps", 100L), nnames = rec.value("names", 4L), maxEnts = rec.value("max_entities", 30L);
    std::ofstream out(rec["trace"].get<std::string>());
    s.f = nix::File::open(s.path, nix::FileMode::Overwrite); s.open = true; s.mode = "rw";
    long nextEid = 1, events = 0;
    json obs = observe(s);
    auto args = [](long p, const std::string &slot, const std::string &n, long t, const std::string &by, long v) {
        return json{{"p", p}, {"slot", slot}, {"n", n}, {"t", t}, {"by", by}, {"v", v}}; };
    for (long st = 0; st < steps; st++) {
        // entities by kind from the last observation
        std::map<std::string, std::vector<json>> byKind; std::vector<json> ents;
        for (auto &e : obs["ents"]) { byKind[e["kind"].get<std::string>()].push_back(e); ents.push_back(e); }
        json step;
        if (!s.open) { step = json{{"a", "Open"}, {"args", args(0, "", rng.pick(4) == 0 ? "ro" : "rw", 0, "", 0)}}; }
        else {
            long what = rng.pick(100);
            const json &e = ents[(size_t) rng.pick((long) ents.size())];
            std::string k = e["kind"]; long eid = e["eid"];
            std::vector<std::string> os = ownSlots(k), ls = linkSlots(k), ns = oneSlots(k);
            auto anyOf = [&](const std::string &kind) -> long { auto &v = byKind[kind]; return v.empty() ? NONE : v[(size_t) rng.pick((long) v.size())]["eid"].get<long>(); };
            if (what < 34 && !os.empty() && (long) ents.size() < maxEnts) {
                std::string slot = os[(size_t) rng.pick((long) os.size())];
                bool needsArr = slot == "mtags" || slot == "features";
                long x = needsArr ? anyOf("array") : NONE;
                if (needsArr && x == NONE) { st--; if (byKind["block"].empty() || rng.pick(3)) { step = json{{"a", "Create"}, {"args", args(0, "blocks", "n" + std::to_string(1 + rng.pick(nnames)), NONE, "", 1)}}; } else continue; }
                else step = json{{"a", "Create"}, {"args", args(eid, slot, slot == "features" ? "" : "n" + std::to_string(1 + rng.pick(nnames)), x, "", (slot == "arrays" || slot == "features") ? 1 + rng.pick(2) : 1)}};
            } else if (what < 46 && eid != 0) {
                // delete e from its owning container: find the parent
                long parent = -1; std::string slot;
                for (auto &p : ents) for (auto it = p["kids"].begin(); it != p["kids"].end(); ++it) {
                    bool owning = false; for (auto &o : ownSlots(p["kind"])) if (o == it.key()) owning = true;
                    if (owning) for (auto &c2 : it.value()) if (c2.get<long>() == eid) { parent = p["eid"]; slot = it.key(); }
                }
                if (parent < 0) continue;
                std::vector<std::string> bys = {"id"}; if (k != "feature") bys.push_back("name"); if (s.retained.count(eid)) bys.push_back("handle");
                step = json{{"a", "Delete"}, {"args", args(parent, slot, "", eid, bys[(size_t) rng.pick((long) bys.size())], 0)}};
            } else if (what < 62 && !ls.empty()) {
                std::string slot = ls[(size_t) rng.pick((long) ls.size())]; long t = anyOf(linkKind(slot));
                if (t == NONE) continue;
                bool present = false; for (auto &x : e["kids"][slot]) if (x.get<long>() == t) present = true;
                std::string by = (s.retained.count(t) && rng.pick(2)) ? "handle" : "id";
                step = json{{"a", (present && rng.pick(3)) ? "RemoveLink" : "AddLink"}, {"args", args(eid, slot, "", t, by, 0)}};
                if (step["a"] == "RemoveLink" && !present) continue;
            } else if (what < 76 && !ns.empty()) {
                std::string slot = ns[(size_t) rng.pick((long) ns.size())]; long t = rng.pick(4) == 0 ? NONE : anyOf(oneKind(slot));
                if (t == NONE && (slot == "positions" || slot == "data")) continue;
                step = json{{"a", "SetOne"}, {"args", args(eid, slot, "", t, "", 0)}};
            } else if (what < 84 && eid != 0 && k != "block" && k != "source" && k != "group") step = json{{"a", "SetAttr"}, {"args", args(eid, "", "", 0, "", 1 + rng.pick(2))}};
            else if (what < 88 && eid != 0 && k != "feature" && k != "prop") step = json{{"a", "SetType"}, {"args", args(eid, "", rng.pick(5) ? "t2" : "", 0, "", 0)}};
            else if (what < 91 && eid != 0 && k != "feature") step = json{{"a", "SetDef"}, {"args", args(eid, "", "", 0, "", rng.pick(2))}};
            else if (what < 94 && k == "array" && e["dims"].size() < 3) { std::string dk[] = {"set", "sampled", "range", "frame"}; std::string d = dk[rng.pick(4)]; long f = d == "frame" ? anyOf("frame") : NONE;
                if (d == "frame") { bool sameBlock = false; if (f != NONE) for (auto &b : byKind["block"]) { bool ha = false, hf = false; for (auto &x : b["kids"]["arrays"]) if (x.get<long>() == eid) ha = true; for (auto &x : b["kids"]["frames"]) if (x.get<long>() == f) hf = true; if (ha && hf) sameBlock = true; } if (!sameBlock) continue; }
                step = json{{"a", "AppendDim"}, {"args", args(eid, d, "", f, "", 0)}}; }
            else if (what < 95 && k == "array" && e["dims"].size() > 0) step = json{{"a", "DeleteDims"}, {"args", args(eid, "", "", 0, "", 0)}};
            else if (what < 97) step = json{{"a", "Flush"}, {"args", args(0, "", "", 0, "", 0)}};
            else if (what < 99) step = json{{"a", "Close"}, {"args", args(0, "", "", 0, "", 0)}};
            else continue;
        }
        step["res"] = "ok"; step["new"] = 0;
        if (step["a"] == "Create") step["new"] = nextEid;      // the eid the entity gets if the call succeeds
        std::string r = doStep(c, s, step, st);
        if (step["a"] == "Create") { if (r == "ok") nextEid++; else step["new"] = 0; }
        step["res"] = r;
        obs = observe(s);
        json lean = json{{"open", obs["open"]}, {"mode", obs["mode"]}, {"ents", json::array()}, {"issues", obs["issues"]}};
        for (auto &e2 : obs["ents"]) lean["ents"].push_back(json{{"eid", e2["eid"]}, {"kind", e2["kind"]}, {"name", e2["name"]}, {"type", e2["type"]}, {"def", e2["def"]}, {"attr", e2["attr"]},
                                                                 {"sh", e2["sh"]}, {"kids", e2["kids"]}, {"one", e2["one"]}, {"dims", e2["dims"]}});
        step["obs"] = lean;
        out << step.dump() << "\n";
        events++;
    }
    out.close();
    if (s.open) { try { s.f.close(); } catch (...) {} }
    json r = ok(); r["events"] = events; r["n"] = events; r["entities_created"] = nextEid - 1;
    return r;
}
Reg regDrive("drive", driveHandle);
}
