// Concrete axes instantiating the abstract (order-only) axes of NixAxis.tla, shared by the axis and
// retrieval handlers.  The harness computes coordinates itself (exactly as the definition says:
// double(i) * interval + offset, the ticks as given, the integers), so a change to the library's
// axis arithmetic cannot move the oracle.
#pragma once
#include "common.hpp"
#include <cmath>
#include <limits>

struct ConcreteAxis {
    std::string kind;                 // sampled | range | setL | set0 | frame
    double interval = 1, offset = 0;  // sampled
    std::vector<double> ticks;        // range: B + n ticks
    long base = 0;                    // index of the window's coordinate 0 on the real axis
    long n = 0;                       // window size
    std::string desc;
    double x(long i) const {          // coordinate of RELATIVE index i (may be -1 or n for neighbours)
        long a = base + i;
        if (kind == "sampled") return static_cast<double>(a) * interval + offset;
        if (kind == "range") return ticks.at(a);
        return static_cast<double>(a);
    }
    bool unbounded() const { return kind == "sampled" || kind == "set0"; }
    long count() const { return base + n; }      // ticks / labels / rows on the real axis
    double gap() const { return kind == "sampled" ? interval : 1.0; }
};

inline std::vector<std::pair<double, double>> sampledParams(long seed, bool all) {
    static const double iv[] = {1.0, 0.1, 0.001, 1.0 / 3.0, 0.25, 7e-5, 1e6};
    static const double of[] = {0.0, 1.0, -1.0, 0.1, 1.0 / 3.0, 1e3};
    std::vector<std::pair<double, double>> r;
    for (int i = 0; i < 7; i++) for (int j = 0; j < 6; j++) r.push_back({iv[i], of[j]});
    if (all) return r;
    std::vector<std::pair<double, double>> q;
    // always the plain axis and the classic decimal one, plus two chosen by seed
    q.push_back({1.0, 0.0}); q.push_back({0.1, 0.0});
    q.push_back(r[(size_t) ((seed * 7 + 3) % 42)]); q.push_back(r[(size_t) ((seed * 13 + 17) % 42)]);
    return q;
}

inline std::vector<long> bases(bool lo, long seed, bool all, long sweepStep = 0) {
    if (!lo) return {0};
    if (sweepStep > 0) { std::vector<long> r; for (long b = 1 + (seed % sweepStep); b <= 10000; b += sweepStep) r.push_back(b); return r; }
    static const long b[] = {1, 7, 99, 1000, 9999};
    if (all) return std::vector<long>(b, b + 5);
    return {1, b[(size_t) (1 + (seed % 4))]};
}

// tick vectors: family f in 0..3, total length len (strictly ascending)
inline std::vector<double> makeTicks(int f, long len) {
    std::vector<double> t;
    double v = (f == 0) ? 0.0 : (f == 1) ? -3.7 : (f == 2) ? 1e-9 : -1e6;
    static const double irr[] = {0.1, 1.7, 0.003, 40.0, 0.5, 2.25, 1e-4, 7.0};
    for (long i = 0; i < len; i++) {
        t.push_back(v);
        if (f == 0) v += 0.5;
        else if (f == 1) v += irr[i % 8];
        else if (f == 2) v *= 1000.0;
        else v = std::nextafter(v + (i % 2 ? 1e5 : 0.0), std::numeric_limits<double>::infinity());  // 1-ulp and huge gaps
    }
    return t;
}

// all concrete axes for an abstract (kind, n, lo)
inline std::vector<ConcreteAxis> concreteAxes(const std::string &kind, long n, bool lo, long seed, bool all, long sweepStep = 0) {
    std::vector<ConcreteAxis> out;
    for (long B : bases(lo, seed, all, sweepStep)) {
        if (kind == "sampled") {
            for (auto &p : sampledParams(seed, all)) {
                ConcreteAxis a; a.kind = kind; a.interval = p.first; a.offset = p.second; a.base = B; a.n = n;
                std::ostringstream d; d.precision(17); d << "sampled(interval=" << p.first << ",offset=" << p.second << ",base=" << B << ")";
                a.desc = d.str(); out.push_back(a);
            }
        } else if (kind == "range") {
            if (B > 99) continue;
            for (int f = 0; f < 4; f++) {
                if (!all && f != 0 && f != 1 + (int) (seed % 3)) continue;
                ConcreteAxis a; a.kind = kind; a.base = B; a.n = n; a.ticks = makeTicks(f, B + n);
                a.desc = "range(family=" + std::to_string(f) + ",base=" + std::to_string(B) + ")"; out.push_back(a);
            }
        } else {
            if (B > 99) continue;
            ConcreteAxis a; a.kind = kind; a.base = B; a.n = n;
            a.desc = kind + "(base=" + std::to_string(B) + ")"; out.push_back(a);
        }
    }
    return out;
}

struct PosVariant { double p; std::string how; };

// concrete positions for a position code q (see NixAxis.tla) on axis a; only positions whose
// exact order relation to the neighbouring coordinates is the one the code stands for are returned
inline std::vector<PosVariant> positionsFor(const ConcreteAxis &a, long q, bool lo) {
    const double inf = std::numeric_limits<double>::infinity();
    std::vector<PosVariant> v;
    long n = a.n;
    if (q % 2 == 1) { v.push_back({a.x((q - 1) / 2), "on"}); return v; }
    long i = q / 2;                       // strictly between coordinate i-1 and coordinate i
    bool hasBelow = (i - 1 >= (lo ? -1 : 0));
    bool hasAbove = (i <= (a.unbounded() ? n : n - 1));
    if (n == 0 && !a.unbounded()) { v.push_back({0.0, "any"}); v.push_back({-1.5, "any"}); v.push_back({2.5, "any"}); return v; }
    if (hasBelow && hasAbove) {
        double l = a.x(i - 1), h = a.x(i);
        double mid = l + (h - l) / 2;
        v.push_back({mid, "mid"});
        v.push_back({std::nextafter(l, inf), "ulp+"});
        v.push_back({std::nextafter(h, -inf), "ulp-"});
        std::vector<PosVariant> w;
        for (auto &pv : v) if (l < pv.p && pv.p < h) w.push_back(pv);
        return w;
    }
    if (!hasBelow) {                      // below every coordinate of the axis
        double h = a.x(i);
        double g = (i + 1 <= (a.unbounded() ? n : n - 1)) ? a.x(i + 1) - h : a.gap();
        v.push_back({h - g / 2, "below-half"});
        v.push_back({std::nextafter(h, -inf), "ulp-"});
        v.push_back({h - 1000 * g - 1.0, "far-below"});
        std::vector<PosVariant> w;
        for (auto &pv : v) if (pv.p < h) w.push_back(pv);
        return w;
    }
    // above every coordinate of a bounded axis
    double l = a.x(i - 1);
    double g = (i - 2 >= (lo ? -1 : 0)) ? l - a.x(i - 2) : a.gap();
    v.push_back({l + g / 2, "above-half"});
    v.push_back({std::nextafter(l, inf), "ulp+"});
    v.push_back({l + 1000 * g + 1.0, "far-above"});
    std::vector<PosVariant> w;
    for (auto &pv : v) if (pv.p > l) w.push_back(pv);
    return w;
}

inline nix::PositionMatch ruleOf(const std::string &r) {
    if (r == "Less") return nix::PositionMatch::Less;
    if (r == "LessOrEqual") return nix::PositionMatch::LessOrEqual;
    if (r == "Equal") return nix::PositionMatch::Equal;
    if (r == "GreaterOrEqual") return nix::PositionMatch::GreaterOrEqual;
    return nix::PositionMatch::Greater;
}

inline std::string hexd(double d) { char b[64]; snprintf(b, sizeof b, "%a", d); return b; }
