// Handler "units": SI unit splitting / scalability / scaling factors (NixUnits.tla; C18)
#include "common.hpp"
#include <cmath>

namespace {
const char *PFX[] = {"", "y", "z", "a", "f", "p", "n", "u", "m", "c", "d", "da", "h", "k", "M", "G", "T", "P", "E", "Z", "Y"};
bool close(double got, double want) { return std::fabs(got - want) <= 1e-12 * std::fabs(want); }

json handle(Ctx &c, const json &rec) {
    const json &cs = rec["c"];
    std::string a = cs["a"], b = cs["b"], t = cs["t"];
    bool scalable = cs["scalable"];
    long evals = 0; json first; long bad = 0;
    auto note = [&](const std::string &what, const json &exp, const json &obs) { bad++; if (first.is_null()) first = json{{"what", what}, {"expected", exp}, {"observed", obs}, {"a", a}, {"b", b}}; };
    if (t == "scale") {
        // the text form splits back into prefix, base unit and power
        std::string p, u, w;
        std::string o = outcome([&] { nix::util::splitUnit(a, p, u, w); });
        evals++;
        std::string wantPow = cs["aw"].get<std::string>().empty() ? "" : cs["aw"].get<std::string>().substr(1);
        if (o != "ok") note("splitUnit threw", "ok", o);
        else if (p != cs["ap"].get<std::string>() || u != cs["ab"].get<std::string>() || w != wantPow)
            note("splitUnit", json{cs["ap"], cs["ab"], wantPow}, json{p, u, w});
        evals++;
        if (!nix::util::isSIUnit(a)) note("isSIUnit", true, false);
    }
    bool s1 = false, s2 = false;
    std::string o1 = outcome([&] { s1 = nix::util::isScalable(a, b); s2 = nix::util::isScalable(b, a); });
    evals += 2;
    if (o1 != "ok") note("isScalable threw", scalable, "threw");
    else { if (s1 != scalable) note("isScalable(a,b)", scalable, s1); if (s2 != scalable) note("isScalable(b,a)", scalable, s2); }
    double f = 0, g = 0;
    std::string what;
    std::string o2 = outcome([&] { f = nix::util::getSIScaling(a, b); }, &what);
    evals++;
    if (scalable) {
        long k = cs["exp"];
        double want = std::strtod(("1e" + std::to_string(k)).c_str(), nullptr);
        if (o2 != "ok") note("getSIScaling threw: " + what, want, "threw");
        else {
            if (!close(f, want)) note("getSIScaling(a,b)", want, f);
            std::string o3 = outcome([&] { g = nix::util::getSIScaling(b, a); });
            evals++;
            if (o3 != "ok" || !close(f * g, 1.0)) note("reciprocal", 1.0, o3 == "ok" ? json(f * g) : json("threw"));
            // composition through a third prefix chosen by seed
            std::string mid = std::string(PFX[(size_t) ((c.seed + (long) a.size() * 7 + (long) b.size()) % 21)]) + cs["ab"].get<std::string>() + cs["aw"].get<std::string>();
            double f1 = 0, f2 = 0;
            std::string o4 = outcome([&] { f1 = nix::util::getSIScaling(a, mid); f2 = nix::util::getSIScaling(mid, b); });
            evals += 2;
            if (o4 != "ok" || !close(f1 * f2, want)) note("composition via " + mid, want, o4 == "ok" ? json(f1 * f2) : json("threw"));
        }
    } else if (o2 == "ok") note("getSIScaling must reject", "reject", f);
    json r = bad ? mismatch("units:" + first["what"].get<std::string>(), first["expected"], first["observed"]) : ok();
    r["n"] = evals; if (bad) { r["first"] = first; r["bad"] = bad; }
    return r;
}
Reg reg("units", handle);
}
