// Handler "frame": histories of NixFrame.tla on a real DataFrame (C15)
#include "common.hpp"
#include <algorithm>

namespace {

const char *TYPES[] = {"Bool", "Int32", "UInt32", "Int64", "UInt64", "Double", "String"};
nix::DataType dtOf(const std::string &t) {
    return t == "Bool" ? nix::DataType::Bool : t == "Int32" ? nix::DataType::Int32 : t == "UInt32" ? nix::DataType::UInt32 : t == "Int64" ? nix::DataType::Int64
         : t == "UInt64" ? nix::DataType::UInt64 : t == "Double" ? nix::DataType::Double : nix::DataType::String;
}
nix::Variant val(const std::string &t, long code) {
    if (t == "Bool") return nix::Variant((bool) (code % 2));
    if (t == "Int32") return nix::Variant((int32_t) -code);
    if (t == "UInt32") return nix::Variant(code % 2 ? (uint32_t) (0xFFFFFFFFu - (uint32_t) code) : (uint32_t) code);
    if (t == "Int64") return nix::Variant(static_cast<int64_t>(code * 1000000007LL));
    if (t == "UInt64") return nix::Variant(code % 2 ? (uint64_t) (0xFFFFFFFFFFFFFFFFull - (uint64_t) code) : (uint64_t) code);
    if (t == "Double") return nix::Variant(0.5 * code);
    return nix::Variant(code == 0 ? std::string("") : (code % 2 ? std::string((size_t) code, 'x') : "\xc3\xa4v" + std::to_string(code)));
}
// value code written by call k into cell (r, c); every third write after the first call writes the DEFAULT value (0 / "" / false)
// explicitly, i.e. over whatever the cell holds
long stamp(long k, long r, long c) { if (k >= 2 && (k + r + c) % 3 == 0) return 0; return 10 * k + ((r + 3 * c) % 10); }

struct S {
    nix::File f; nix::Block b; nix::DataFrame df; std::string path;
    std::vector<std::string> types;     // concrete column types (model columns first, then never-written extras)
    std::vector<std::string> names;
    size_t modelCols = 0;
    long rows = 0;
    bool reverseCells = false;
    std::map<std::pair<long, long>, long> cell;    // expected codes of model cells (row, col 1-based)
};

template <typename T> std::vector<T> colVals(const std::string &t, const std::vector<long> &codes) { std::vector<T> v; for (long c : codes) v.push_back(val(t, c).get<T>()); return v; }

void writeColumn(S &s, nix::DataFrame &D, size_t ci, long off, const std::vector<long> &codes, bool byName) {
    const std::string &t = s.types[ci];
#define WC(T) { std::vector<T> v = colVals<T>(t, codes); if (byName) D.writeColumn(s.names[ci], v, (nix::ndsize_t) off); else D.writeColumn((unsigned) ci, v, (nix::ndsize_t) off); }
    if (t == "Bool") { std::vector<bool> vb; for (long c : codes) vb.push_back(c % 2);
        // std::vector<bool> has no contiguous storage: write cell by cell through the column path of the row API instead
        // (highest row first, so that a stretch reaching past the last row fails before anything is written)
        for (size_t i = codes.size(); i-- > 0;) D.writeCell((nix::ndsize_t) (off + (long) i), (unsigned) ci, val(t, codes[i])); }
    else if (t == "Int32") WC(int32_t) else if (t == "UInt32") WC(uint32_t) else if (t == "Int64") WC(int64_t) else if (t == "UInt64") WC(uint64_t)
    else if (t == "Double") WC(double) else WC(std::string)
#undef WC
}

template <typename T> bool readColCheck(S &s, size_t ci, std::string &why) {
    const std::string &t = s.types[ci];
    auto expect = [&](long r) { long code = ci < s.modelCols ? s.cell[{r, (long) ci + 1}] : 0; return val(t, code).get<T>(); };
    // every overload (by name / by index, with and without explicit count), resize on and off, every offset 0..rows and every
    // stretch [off, off+cnt) inside the column: the vector must hold exactly the cells of that stretch
    bool full = ci < s.modelCols;      // never-written extra columns: a reduced sweep
    for (long off = 0; off <= s.rows; off++) {
        if (!full && off > 1) break;
        for (int how = 0; how < 4; how++) {
            if (!full && (how == 1 || how == 2)) continue;
            // how 0: (name, resize=true, off)   1: (index, resize=true, off)   2: (name, pre-sized, resize=false, off)   3: (index, pre-sized, false, off)
            std::vector<T> v;
            long want = s.rows - off;
            if (how >= 2) v.resize((size_t) want);
            if (how >= 2 && want == 0) continue;            // nothing to read into an empty vector
            try {
                if (how == 0) s.df.readColumn(s.names[ci], v, true, (nix::ndsize_t) off);
                else if (how == 1) s.df.readColumn((unsigned) ci, v, true, (nix::ndsize_t) off);
                else if (how == 2) s.df.readColumn(s.names[ci], v, false, (nix::ndsize_t) off);
                else s.df.readColumn((unsigned) ci, v, false, (nix::ndsize_t) off);
            } catch (const std::exception &e) { why = "readColumn variant " + std::to_string(how) + " offset " + std::to_string(off) + " threw: " + e.what(); return false; }
            if ((long) v.size() != want) { why = "readColumn variant " + std::to_string(how) + " offset " + std::to_string(off) + " returned " + std::to_string(v.size()) + " rows, expected " + std::to_string(want); return false; }
            for (long r = off; r < s.rows; r++)
                if (!(v[(size_t) (r - off)] == expect(r))) { why = "readColumn variant " + std::to_string(how) + " (" + s.names[ci] + ") offset " + std::to_string(off) + " row " + std::to_string(r) + " differs"; return false; }
        }
        for (long cnt = 1; full && off + cnt <= s.rows; cnt++) {
            for (int how = 0; how < 2; how++) {
                std::vector<T> v;                            // explicit count, resize = true
                try { if (how == 0) s.df.readColumn(s.names[ci], v, (size_t) cnt, true, (nix::ndsize_t) off); else s.df.readColumn((unsigned) ci, v, (size_t) cnt, true, (nix::ndsize_t) off); }
                catch (const std::exception &e) { why = "readColumn(count " + std::to_string(cnt) + ", offset " + std::to_string(off) + ") threw: " + e.what(); return false; }
                if ((long) v.size() != cnt) { why = "readColumn(count) returned " + std::to_string(v.size()) + " rows, expected " + std::to_string(cnt); return false; }
                for (long r = off; r < off + cnt; r++)
                    if (!(v[(size_t) (r - off)] == expect(r))) { why = "readColumn(count " + std::to_string(cnt) + ", offset " + std::to_string(off) + ") row " + std::to_string(r) + " differs"; return false; }
            }
        }
    }
    return true;
}

bool observe(S &s, std::string &why) {
    if ((long) s.df.rows() != s.rows) { why = "rows() = " + std::to_string(s.df.rows()) + ", expected " + std::to_string(s.rows); return false; }
    std::vector<nix::Column> cols = s.df.columns();
    if (cols.size() != s.types.size()) { why = "column count changed"; return false; }
    for (size_t i = 0; i < cols.size(); i++)
        if (cols[i].name != s.names[i] || cols[i].dtype != dtOf(s.types[i]) || cols[i].unit != (i % 2 ? "mV" : "")) { why = "schema of column " + std::to_string(i) + " changed"; return false; }
    for (size_t i = 0; i < cols.size(); i++) {
        if (s.df.colIndex(s.names[i]) != (unsigned) i) { why = "colIndex(" + s.names[i] + ") = " + std::to_string(s.df.colIndex(s.names[i])); return false; }
        std::vector<std::string> one = {s.names[i]};
        std::vector<unsigned> ix = s.df.colIndex(one);
        if (ix.size() != 1 || ix[0] != (unsigned) i) { why = "colIndex({" + s.names[i] + "}) differs"; return false; }
        if (s.df.colName((unsigned) i) != s.names[i]) { why = "colName(" + std::to_string(i) + ") = " + s.df.colName((unsigned) i); return false; }
    }
    for (long r = 0; r < s.rows; r++) {
        std::vector<nix::Variant> row = s.df.readRow((nix::ndsize_t) r);
        if (row.size() != s.types.size()) { why = "readRow size"; return false; }
        std::vector<nix::Cell> cs = s.df.readCells((nix::ndsize_t) r, s.names);
        {   // the answer follows the REQUEST: cells come back in the order asked for, each under the name asked for (reversed
            // order, and every second column only)
            std::vector<std::string> rev(s.names.rbegin(), s.names.rend()), sub;
            for (size_t ci = 0; ci < s.names.size(); ci += 2) sub.push_back(s.names[s.names.size() - 1 - ci]);
            for (const auto &req : {rev, sub}) {
                std::vector<nix::Cell> got = s.df.readCells((nix::ndsize_t) r, req);
                if (got.size() != req.size()) { why = "readCells(names) returned " + std::to_string(got.size()) + " cells for " + std::to_string(req.size()) + " names"; return false; }
                for (size_t q = 0; q < req.size(); q++) {
                    size_t ci = (size_t) (std::find(s.names.begin(), s.names.end(), req[q]) - s.names.begin());
                    long code = ci < s.modelCols ? s.cell[{r, (long) ci + 1}] : 0;
                    if (got[q].name != req[q] || !(static_cast<nix::Variant &>(got[q]) == val(s.types[ci], code))) { why = "readCells(names in another order): cell " + std::to_string(q) + " of row " + std::to_string(r) + " is not the cell of column '" + req[q] + "'"; return false; }
                }
            }
        }
        for (size_t ci = 0; ci < s.types.size(); ci++) {
            long code = ci < s.modelCols ? s.cell[{r, (long) ci + 1}] : 0;
            nix::Variant want = val(s.types[ci], code);
            if (!(row[ci] == want)) { why = "readRow(" + std::to_string(r) + ") column " + std::to_string(ci) + " differs"; return false; }
            nix::Cell c1 = s.df.readCell((nix::ndsize_t) r, (unsigned) ci);
            if (!(static_cast<nix::Variant &>(c1) == want)) { why = "readCell(row,index) differs at " + std::to_string(r) + "," + std::to_string(ci); return false; }
            nix::Cell c2 = s.df.readCell((nix::ndsize_t) r, s.names[ci]);
            if (!(static_cast<nix::Variant &>(c2) == want)) { why = "readCell(row,name) differs at " + std::to_string(r) + "," + std::to_string(ci); return false; }
            if (cs.size() != s.types.size() || !(static_cast<nix::Variant &>(cs[ci]) == want)) { why = "readCells differs at " + std::to_string(r) + "," + std::to_string(ci); return false; }
        }
    }
    for (size_t ci = 0; ci < s.types.size(); ci++) {
        const std::string &t = s.types[ci];
        bool okc = true;
        if (t == "Int32") okc = readColCheck<int32_t>(s, ci, why); else if (t == "UInt32") okc = readColCheck<uint32_t>(s, ci, why);
        else if (t == "Int64") okc = readColCheck<int64_t>(s, ci, why); else if (t == "UInt64") okc = readColCheck<uint64_t>(s, ci, why);
        else if (t == "Double") okc = readColCheck<double>(s, ci, why); else if (t == "String") okc = readColCheck<std::string>(s, ci, why);
        if (!okc) return false;
    }
    return true;
}

std::string doStep(S &s, const json &st, long k) {
    std::string a = st["a"]; const json &v = st["v"];
    bool okExp = st["res"] == "ok";
    // calls alternate (in pairs) between the handle kept since creation and a fresh look-up of the frame
    nix::DataFrame fresh = ((k / 2) % 2) ? s.b.getDataFrame("df") : s.df;
    nix::DataFrame &D = ((k / 2) % 2) ? fresh : s.df;
    if (a == "SetRows") {
        long n = v["n"];
        std::string o = outcome([&] { D.rows((nix::ndsize_t) n); });
        std::map<std::pair<long, long>, long> nc;
        for (long r = 0; r < n; r++) for (size_t c = 1; c <= s.modelCols; c++) nc[{r, (long) c}] = r < s.rows ? s.cell[{r, (long) c}] : 0;
        s.cell = nc; s.rows = n; return o;
    }
    if (a == "WriteRow") {
        long r = v["r"];
        std::vector<nix::Variant> row;
        for (size_t ci = 0; ci < s.types.size(); ci++) row.push_back(val(s.types[ci], ci < s.modelCols ? stamp(k, r, (long) ci + 1) : 0));
        std::string o = outcome([&] { D.writeRow((nix::ndsize_t) r, row); });
        if (okExp) for (size_t c = 1; c <= s.modelCols; c++) s.cell[{r, (long) c}] = stamp(k, r, (long) c);
        return o;
    }
    if (a == "WriteCells") {
        long r = v["r"];
        std::vector<nix::Cell> cells;
        for (auto &cj : v["cols"]) { long c = cj; size_t ci = (size_t) c - 1;
            // addressing of the cells: all by column index, all by name, or mixed (by call number)
            bool byIndex = (k % 3 == 0) || (k % 3 == 2 && (c % 2));
            if (byIndex) cells.push_back(nix::Cell{(unsigned) ci, val(s.types[ci], stamp(k, r, c))}); else cells.push_back(nix::Cell{s.names[ci], val(s.types[ci], stamp(k, r, c))}); }
        if (s.reverseCells) std::reverse(cells.begin(), cells.end());
        std::string o = outcome([&] { if (cells.size() == 1 && cells[0].haveName() == false) D.writeCell((nix::ndsize_t) r, cells[0].col, cells[0]); else D.writeCells((nix::ndsize_t) r, cells); });
        if (okExp) for (auto &cj : v["cols"]) s.cell[{r, cj.get<long>()}] = stamp(k, r, cj.get<long>());
        return o;
    }
    if (a == "WriteColumn") {
        long c = v["c"], off = v["off"], cnt = v["cnt"];
        std::vector<long> codes; for (long i = 0; i < cnt; i++) codes.push_back(stamp(k, off + i, c));
        std::string o = outcome([&] { writeColumn(s, D, (size_t) c - 1, off, codes, k % 2 == 0); });
        if (okExp) for (long i = 0; i < cnt; i++) s.cell[{off + i, c}] = stamp(k, off + i, c);
        return o;
    }
    if (a == "Reopen") return outcome([&] { s.f.close(); s.f = nix::File::open(s.path, (k % 2) ? nix::FileMode::ReadWrite : nix::FileMode::ReadOnly); s.b = s.f.getBlock("b"); s.df = s.b.getDataFrame("df"); });
    throw std::runtime_error("harness: unknown frame action " + a);
}

json handle(Ctx &c, const json &rec) {
    S s; s.path = c.path("frame.nix");
    std::vector<json> all(rec["pre"].begin(), rec["pre"].end());
    all.push_back(rec["step"]);
    // number of model columns: from the widest row of the expected observation or the column arguments
    size_t mc = (size_t) c.opts.value("cols", 2L);
    s.modelCols = mc;
    size_t extra = (size_t) c.opts.value("extra_cols", 2L);
    // by line (content hash): one line in three has NO never-written extra columns, so that a write of all model cells addresses every
    // column of the frame; on every other line the cells of a writeCells call are handed over in reversed column order
    { std::string key = rec["pre"].dump() + rec["step"].dump(); unsigned long h = 1469598103934665603UL; for (unsigned char ch : key) { h ^= ch; h *= 1099511628211UL; }
      if (h % 3 == 0) extra = 0; s.reverseCells = (h / 3) % 2 == 1; }
    for (size_t i = 0; i < mc + extra; i++) { s.types.push_back(TYPES[(c.seed + 3 * i) % 7]); { static const char *NM[] = {"time", "count", "Zeta", "alpha \xc3\xa4", "col", "beta"};        // schema order is not the alphabetical order of the names
                                                       s.names.push_back(std::string(NM[(i + (size_t) c.seed) % 6]) + (i >= 6 ? std::to_string(i) : "")); } }
    s.f = nix::File::open(s.path, nix::FileMode::Overwrite);
    s.b = s.f.createBlock("b", "t");
    std::vector<nix::Column> cols;
    for (size_t i = 0; i < s.types.size(); i++) cols.push_back({s.names[i], i % 2 ? "mV" : "", dtOf(s.types[i])});
    s.df = s.b.createDataFrame("df", "t", cols);
    json result = ok();
    for (size_t i = 0; i < all.size(); i++) {
        bool last = i + 1 == all.size();
        if (all[i]["a"] != "Reopen" && s.f.fileMode() == nix::FileMode::ReadOnly) { s.f.close(); s.f = nix::File::open(s.path, nix::FileMode::ReadWrite); s.b = s.f.getBlock("b"); s.df = s.b.getDataFrame("df"); }
        std::string r = doStep(s, all[i], (long) i + 1);
        if (r != all[i]["res"].get<std::string>()) {
            if (!last) { result = json{{"v", "unjudgeable"}, {"what", "prefix step outcome differs"}, {"step", all[i]}, {"observed", r}}; break; }
            result = mismatch("outcome:" + all[i]["a"].get<std::string>(), all[i]["res"], r); break;
        }
        if (last) {
            // the harness's expected cells must be the specification's
            const json &post = rec["post"];
            bool same = post["rows"].get<long>() == s.rows;
            for (long rr = 0; same && rr < s.rows; rr++) for (size_t cc = 1; cc <= mc; cc++) if (post["cells"][(size_t) rr][cc - 1].get<long>() != s.cell[{rr, (long) cc}]) same = false;
            if (!same) { result = json{{"v", "harness_exception"}, {"what", "harness bookkeeping disagrees with the specification"}}; break; }
            std::string why;
            std::string o = outcome([&] { if (!observe(s, why)) throw std::runtime_error(why); }, &why);
            if (o != "ok") result = mismatch("cells", post, why);
        }
    }
    try { s.f.close(); } catch (...) {}
    return result;
}
Reg reg("frame", handle);
}
