// Handler "data": histories of NixData.tla on a real DataArray, for every element type (C01, C17 DataView part)
#include "common.hpp"
#include <cmath>

namespace {

using Idx = std::vector<long>;

std::vector<Idx> rowMajor(const Idx &off, const Idx &cnt) {
    std::vector<Idx> out;
    size_t R = off.size();
    size_t total = 1; for (size_t j = 0; j < R; j++) total *= (size_t) std::max(0L, cnt[j]);
    Idx cur(R, 0);
    for (size_t t = 0; t < total; t++) {
        Idx x(R); for (size_t j = 0; j < R; j++) x[j] = off[j] + cur[j];
        out.push_back(x);
        for (size_t j = R; j-- > 0;) { if (++cur[j] < cnt[j]) break; cur[j] = 0; }
    }
    return out;
}
long stampOf(long k, const Idx &idx) {
    long s = idx[0] + (idx.size() >= 2 ? 3 * idx[1] : 0) + (idx.size() >= 3 ? 5 * idx[2] : 0);
    return 10 * k + (s % 10);
}
nix::NDSize nd(const Idx &v) { nix::NDSize n(v.size()); for (size_t i = 0; i < v.size(); i++) n[i] = (nix::ndsize_t) v[i]; return n; }
Idx toIdx(const json &j) { Idx v; for (auto &x : j) v.push_back(x.get<long>()); return v; }

// value dictionaries: abstract code <-> value of the element type (code 0 = fill value)
template <typename T> struct Conv {
    static T enc(long c, long) { return static_cast<T>(c); }
    static double asDouble(long c, long) { return (double) static_cast<T>(c); }
};
template <> struct Conv<bool> { static bool enc(long c, long) { return c % 2 == 1; } static double asDouble(long c, long) { return c % 2; } };
template <> struct Conv<float> { static float enc(long c, long) { return 0.5f * c; } static double asDouble(long c, long) { return 0.5 * c; } };
template <> struct Conv<double> { static double enc(long c, long v) { return v == 1 ? 0.25 * c : 0.5 * c; } static double asDouble(long c, long v) { return v == 1 ? 0.25 * c : 0.5 * c; } };
template <> struct Conv<std::string> {
    static std::string enc(long c, long v) {
        if (c == 0) return "";
        if (v == 1) return std::string((size_t) (c * 7), 'x') + std::to_string(c);
        if (v == 2) return "\xc3\xa4\xe2\x98\x83" + std::to_string(c);
        return "v" + std::to_string(c);
    }
    static double asDouble(long, long) { return 0; }
};

struct State { Idx ext; std::map<Idx, long> cells; std::vector<double> poly; bool hasOrigin = false; double origin = 0; };

template <typename T> struct Buf { std::vector<T> v; void *p() { return v.data(); } };
template <> struct Buf<bool> { std::unique_ptr<bool[]> b; size_t n = 0; std::vector<bool> v; void *p() { return b.get(); } };

template <typename T> void fill(Buf<T> &b, const std::vector<Idx> &ix, long k, long variant) { b.v.clear(); for (auto &i : ix) b.v.push_back(Conv<T>::enc(stampOf(k, i), variant)); }
template <> void fill<bool>(Buf<bool> &b, const std::vector<Idx> &ix, long k, long variant) { b.n = ix.size(); b.b.reset(new bool[std::max<size_t>(1, b.n)]); for (size_t q = 0; q < ix.size(); q++) b.b[q] = Conv<bool>::enc(stampOf(k, ix[q]), variant); }
// read buffers are handed over DIRTY (a value no cell can hold): a read that leaves part of the caller's buffer untouched - e.g.
// a never-written chunk the storage layer skips - must not pass for "reads as zero"
template <typename T> struct Poison { static T v() { return static_cast<T>(113); } };
template <> struct Poison<float> { static float v() { return 113.125f; } };
template <> struct Poison<double> { static double v() { return 113.125; } };
template <> struct Poison<std::string> { static std::string v() { return "never-read"; } };
template <typename T> void alloc(Buf<T> &b, size_t n) { b.v.assign(n, Poison<T>::v()); }
template <> void alloc<bool>(Buf<bool> &b, size_t n) { b.n = n; b.b.reset(new bool[std::max<size_t>(1, n)]); for (size_t q = 0; q < n; q++) b.b[q] = true; }
template <typename T> T at(Buf<T> &b, size_t i) { return b.v[i]; }
template <> bool at<bool>(Buf<bool> &b, size_t i) { return b.b[i]; }

template <typename T> struct Runner {
    Ctx &c; nix::DataType dt; nix::Compression comp; long variant; bool calibrate;
    nix::File f; nix::Block b;
    // two handles of the same array, each looked up once per session and kept on the heap (never copied or assigned: a handle
    // object may remember things): calls alternate between them, and after every call both must show the same array
    std::shared_ptr<nix::DataArray> h[2]; int cur = 0;
    nix::DataArray &A() { return *h[cur]; }
    void lookUp() { h[0] = std::make_shared<nix::DataArray>(b.getDataArray("a")); h[1] = std::make_shared<nix::DataArray>(f.getBlock(0).getDataArray(0)); }
    State st;
    long evals = 0;
    std::string why;

    void openNew(size_t R) {
        f = nix::File::open(c.path("data.nix"), nix::FileMode::Overwrite, "hdf5", comp == nix::Compression::Auto ? nix::Compression::DeflateNormal : nix::Compression::None);
        b = f.createBlock("b", "t");
        b.createDataArray("a", "t", dt, nix::NDSize(R, 1), comp); lookUp();
        st = State(); st.ext = Idx(R, 1);
        for (auto &i : rowMajor(Idx(R, 0), st.ext)) st.cells[i] = 0;
    }

    // compare a region read through `how` with the expected content
    bool checkRegion(const Idx &off, const Idx &cnt, const std::string &how, std::function<void(Buf<T> &, const nix::NDSize &, const nix::NDSize &)> rd) {
        std::vector<Idx> ix = rowMajor(off, cnt);
        Buf<T> buf; alloc(buf, ix.size());
        std::string w;
        std::string o = outcome([&] { rd(buf, nd(cnt), nd(off)); }, &w);
        evals++;
        if (o != "ok") { why = how + " threw: " + w; return false; }
        for (size_t q = 0; q < ix.size(); q++) {
            T want = Conv<T>::enc(st.cells.at(ix[q]), variant);
            if (!(at(buf, q) == want)) { std::ostringstream s; s << how << ": element " << q << " of region off=" << json(off) << " cnt=" << json(cnt) << " differs"; why = s.str(); return false; }
        }
        return true;
    }

    bool observe(bool subregions) {
        if (!observe1(subregions)) return false;
        cur = 1 - cur;
        bool okOther = observe1(false);
        cur = 1 - cur;
        if (!okOther) { why = "through the other handle of the array: " + why; return false; }
        return true;
    }
    bool observe1(bool subregions) {
        nix::NDSize e = A().dataExtent();
        if (e.size() != st.ext.size()) { why = "rank changed"; return false; }
        for (size_t j = 0; j < e.size(); j++) if ((long) e[j] != st.ext[j]) { why = "extent differs: got " + json(std::vector<long>(e.begin(), e.end())).dump() + " want " + json(st.ext).dump(); return false; }
        if (A().dataType() != dt) { why = "element type changed"; return false; }
        size_t R = st.ext.size();
        auto raw = [&](Buf<T> &bf, const nix::NDSize &cn, const nix::NDSize &of) { A().getDataDirect(dt, bf.p(), cn, of); };
        if (!checkRegion(Idx(R, 0), st.ext, "getDataDirect(whole)", raw)) return false;
        bool cal = !st.poly.empty() || st.hasOrigin;
        if (!cal) { auto viaGet = [&](Buf<T> &bf, const nix::NDSize &cn, const nix::NDSize &of) { A().getData(dt, bf.p(), cn, of); };
                    if (!checkRegion(Idx(R, 0), st.ext, "getData(whole)", viaGet)) return false; }
        if (subregions) {
            // every rectangular sub-region
            std::vector<Idx> offs = rowMajor(Idx(R, 0), st.ext);
            for (auto &of : offs) {
                Idx maxc(R); for (size_t j = 0; j < R; j++) maxc[j] = st.ext[j] - of[j];
                for (auto &cn0 : rowMajor(Idx(R, 0), maxc)) { Idx cn(R); for (size_t j = 0; j < R; j++) cn[j] = cn0[j] + 1;
                    if (!checkRegion(of, cn, "getDataDirect(sub)", raw)) return false; }
            }
        }
        if (subregions) {
            // a read with an EMPTY count vector and an offset transfers exactly the one element at the offset (raw read path)
            for (auto &of : rowMajor(Idx(R, 0), st.ext)) {
                Buf<T> one; alloc(one, 2);      // second element = canary: must stay untouched
                std::string w; T canary = at(one, 1);
                if (outcome([&] { A().getDataDirect(dt, one.p(), nix::NDSize(), nd(of)); }, &w) != "ok") { why = "getDataDirect(empty count, offset) threw: " + w; return false; }
                evals++;
                if (!(at(one, 0) == Conv<T>::enc(st.cells.at(of), variant))) { why = "getDataDirect(empty count, offset " + json(of).dump() + ") did not return the element at the offset"; return false; }
                if (!(at(one, 1) == canary)) { why = "getDataDirect(empty count, offset) wrote more than one element"; return false; }
            }
        }
        // calibration attributes read back
        if (A().polynomCoefficients() != st.poly) { why = "polynomCoefficients differ"; return false; }
        boost::optional<double> og = A().expansionOrigin();
        if ((bool) og != st.hasOrigin || (og && *og != st.origin)) { why = "expansionOrigin differs"; return false; }
        // calibrated and cross-type reads (numeric types)
        if (calibrate) {
            std::vector<Idx> ix = rowMajor(Idx(R, 0), st.ext);
            std::vector<double> got(ix.size(), -777.0);
            std::string w;
            if (outcome([&] { A().getData(nix::DataType::Double, got.data(), nd(st.ext), nix::NDSize(R, 0)); }, &w) != "ok") { why = "getData(Double) threw: " + w; return false; }
            evals++;
            for (size_t q = 0; q < ix.size(); q++) {
                double x = Conv<T>::asDouble(st.cells.at(ix[q]), variant);
                double want = x;
                if (cal) {
                    double xx = x - (st.hasOrigin ? st.origin : 0.0);
                    if (st.poly.empty()) want = xx;
                    else { want = 0; double term = 1; for (double cf : st.poly) { want += cf * term; term *= xx; } }
                }
                if (got[q] != want) { std::ostringstream s; s << "calibrated/cross-type read as Double: element " << q << " = " << got[q] << ", expected " << want; why = s.str(); return false; }
                if (q < 4) {   // the same element through a read with an empty count vector (one element at the offset), calibrated
                    double two[2] = {-777.0, -778.0};
                    if (outcome([&] { A().getData(nix::DataType::Double, two, nix::NDSize(), nd(ix[q])); }, &w) != "ok") { why = "getData(Double, empty count, offset) threw: " + w; return false; }
                    evals++;
                    if (two[0] != want || two[1] != -778.0) { std::ostringstream s; s << "getData(Double, empty count, offset " << json(ix[q]).dump() << ") = " << two[0] << " (next element " << two[1] << "), expected " << want << " and nothing else written"; why = s.str(); return false; }
                }
            }
            // as Int64 and Int32 (values are integral for the integer dictionaries; otherwise truncation of the double)
            std::vector<int64_t> g64(ix.size(), -777);
            if (outcome([&] { A().getData(nix::DataType::Int64, g64.data(), nd(st.ext), nix::NDSize(R, 0)); }, &w) != "ok") { why = "getData(Int64) threw: " + w; return false; }
            std::vector<int32_t> g32(ix.size(), -777);
            if (outcome([&] { A().getData(nix::DataType::Int32, g32.data(), nd(st.ext), nix::NDSize(R, 0)); }, &w) != "ok") { why = "getData(Int32) threw: " + w; return false; }
            evals += 2;
            for (size_t q = 0; q < ix.size(); q++) {
                double wantd = got[q];
                if (std::floor(wantd) != wantd) continue;       // conversion of non-integral doubles is not asserted
                if ((double) g64[q] != wantd) { why = "calibrated/cross-type read as Int64 differs from the Double read at element " + std::to_string(q) + ": " + std::to_string(g64[q]); return false; }
                if ((double) g32[q] != wantd) { why = "calibrated/cross-type read as Int32 differs from the Double read at element " + std::to_string(q); return false; }
            }
        }
        return true;
    }

    // executes one step; returns outcome class, updates the expected state when the model says ok
    std::string step(const json &s, long k) {
        std::string act = s["a"]; const json &g = s["args"];
        size_t R = st.ext.size();
        std::string w;
        if (act == "WriteSlab") {
            Idx off = toIdx(g["off"]), cnt = toIdx(g["cnt"]);
            std::vector<Idx> ix = rowMajor(off, cnt);
            Buf<T> buf; fill(buf, ix, k, variant);
            std::string o = outcome([&] { A().setData(dt, buf.p(), nd(cnt), nd(off)); }, &w);
            if (s["res"] == "ok") for (auto &i : ix) st.cells[i] = stampOf(k, i);
            return o;
        }
        if (act == "SetAll") {
            Idx e = toIdx(g["e"]);
            std::vector<Idx> ix = rowMajor(Idx(R, 0), e);
            Buf<T> buf; fill(buf, ix, k, variant);
            std::string o = outcome([&] { A().dataExtent(nd(e)); A().setData(dt, buf.p(), nd(e), nix::NDSize(R, 0)); }, &w);
            st.ext = e; st.cells.clear(); for (auto &i : ix) st.cells[i] = stampOf(k, i);
            return o;
        }
        if (act == "Append" || act == "AppendBad") {
            size_t axis = (size_t) g["axis"].get<long>() - 1; long n = act == "Append" ? g["n"].get<long>() : 1;
            Idx off(R, 0), cnt(st.ext); off[axis] = st.ext[axis]; cnt[axis] = n;
            if (act == "AppendBad") {
                if (g["n"].get<long>() == 2) {      // permute the other dimensions: same number of elements, wrong shape
                    std::vector<size_t> oth; for (size_t j = 0; j < R; j++) if (j != axis) oth.push_back(j);
                    Idx sw(cnt); for (size_t q = 0; q < oth.size(); q++) sw[oth[q]] = cnt[oth[(q + 1) % oth.size()]];
                    cnt = sw; cnt[axis] = 1;
                } else cnt[(axis + 1) % R] += 1;
            }
            std::vector<Idx> ix = rowMajor(off, cnt);
            Buf<T> buf; fill(buf, ix, k, variant);
            std::string o = outcome([&] { A().appendData(dt, buf.p(), nd(cnt), axis); }, &w);
            if (act == "Append") {
                std::map<Idx, long> nc = st.cells; for (auto &i : ix) nc[i] = stampOf(k, i);
                st.cells = nc; st.ext[axis] += n;
            }
            return o;
        }
        if (act == "SetExtent") {
            Idx e = toIdx(g["e"]);
            std::string o = outcome([&] { A().dataExtent(nd(e)); }, &w);
            std::map<Idx, long> nc; for (auto &i : rowMajor(Idx(R, 0), e)) { auto it = st.cells.find(i); nc[i] = it == st.cells.end() ? 0 : it->second; }
            st.cells = nc; st.ext = e;
            return o;
        }
        if (act == "SetPoly") {
            std::vector<double> p; for (auto &x : g["p"]) p.push_back(x.get<double>());
            std::string o = outcome([&] { if (p.empty()) A().polynomCoefficients(nix::none); else A().polynomCoefficients(p); }, &w);
            st.poly = p; return o;
        }
        if (act == "SetOrigin") {
            long ov = g["o"];
            std::string o = outcome([&] { if (ov == -1) A().expansionOrigin(nix::none); else A().expansionOrigin((double) ov); }, &w);
            st.hasOrigin = ov != -1; st.origin = (double) ov; return o;
        }
        if (act == "Reopen") {
            return outcome([&] { f.close(); f = nix::File::open(c.path("data.nix"), (k % 2) ? nix::FileMode::ReadWrite : nix::FileMode::ReadOnly); b = f.getBlock("b"); lookUp(); }, &w);
        }
        if (act == "ViewWrite" || act == "ViewRead") {
            Idx woff = toIdx(g["woff"]), wcnt = toIdx(g["wcnt"]), off = toIdx(g["off"]), cnt = toIdx(g["cnt"]);
            Idx aoff(R); for (size_t j = 0; j < R; j++) aoff[j] = woff[j] + off[j];
            std::vector<Idx> ix = rowMajor(aoff, cnt);
            Buf<T> buf;
            bool dataOk = true;
            std::string o = outcome([&] {
                nix::DataView dv(A(), nd(wcnt), nd(woff));
                if (act == "ViewWrite") { fill(buf, ix, k, variant); dv.setData(dt, buf.p(), nd(cnt), nd(off)); }
                else { alloc(buf, ix.size()); dv.getData(dt, buf.p(), nd(cnt), nd(off));
                       for (size_t q = 0; q < ix.size(); q++) if (!(at(buf, q) == Conv<T>::enc(st.cells.at(ix[q]), variant))) dataOk = false; }
            }, &w);
            if (act == "ViewWrite" && s["res"] == "ok") for (auto &i : ix) st.cells[i] = stampOf(k, i);
            if (!dataOk) { why = "read through the DataView returned wrong elements"; return "wrongdata"; }
            return o;
        }
        throw std::runtime_error("harness: unknown data action " + act);
    }

    json run(const json &rec, bool subregions) {
        std::vector<json> all(rec["pre"].begin(), rec["pre"].end());
        all.push_back(rec["step"]);
        size_t R = rec["post"]["ext"].size();
        openNew(R);
        json result = ok();
        for (size_t i = 0; i < all.size(); i++) {
            bool last = i + 1 == all.size();
            // Reopen in ReadOnly must be followed by a ReadWrite reopen before the next mutation: reopen rw when needed
            if (all[i]["a"] != "Reopen" && all[i]["a"] != "ViewRead" && f.fileMode() == nix::FileMode::ReadOnly) {
                f.close(); f = nix::File::open(c.path("data.nix"), nix::FileMode::ReadWrite); b = f.getBlock("b"); lookUp();
            }
            cur = (int) (i % 3 == 1);          // every third call goes through the second handle
            State before = st;
            std::string r = step(all[i], (long) i + 1);
            // C08 speaks about every call the LIBRARY rejects, whatever the specification expected: a call rejected although the
            // specification accepts it must leave the array as it was before the call
            if (last && r == "reject" && all[i]["res"] != "reject") {
                st = before;
                if (!observe(false)) { result = mismatch("rejected call left a trace:" + all[i]["a"].get<std::string>(), rec["post"], why); result["c08"] = true; result["why"] = why; break; }
            }
            if (last && c.opts.value("c08_only", false) && r == all[i]["res"].get<std::string>() && r != "reject") break;      // accepted as predicted: not C08's business
            if (!last) { try { nix::DataArray &o = *h[1 - cur]; nix::NDSize e = o.dataExtent(); (void) o.polynomCoefficients(); (void) o.expansionOrigin();
                               if (e.size() > 0 && e.nelms() > 0 && e.nelms() < 64) { Buf<T> bf; alloc(bf, (size_t) e.nelms()); o.getDataDirect(dt, bf.p(), e, nix::NDSize(e.size(), 0)); } } catch (...) {} }
            if (r != all[i]["res"].get<std::string>()) {
                if (!last) { result = json{{"v", "unjudgeable"}, {"what", "prefix step outcome differs"}, {"step", all[i]}, {"observed", r}}; break; }
                result = mismatch("outcome", all[i]["res"], r); result["why"] = why; break;
            }
            if (last && !observe(subregions)) { result = mismatch("content", rec["post"], why); break; }
        }
        try { f.close(); } catch (...) {}
        return result;
    }
};

template <typename T> json runType(Ctx &c, const json &rec, nix::DataType dt, nix::Compression comp, long variant, bool calibrate, long &evals) {
    Runner<T> r{c, dt, comp, variant, calibrate};
    json v = r.run(rec, c.opts.value("subregions", true));
    evals += r.evals + 1;
    return v;
}

json handle(Ctx &c, const json &rec) {
    static const std::vector<std::string> ALL = {"Bool", "Int8", "Int16", "Int32", "Int64", "UInt8", "UInt16", "UInt32", "UInt64", "Float", "Double", "String"};
    std::vector<std::string> types;
    if (c.opts.contains("types")) for (auto &t : c.opts["types"]) types.push_back(t);
    else { types = {"Double", "String", ALL[(size_t) (c.seed % 10)]}; }
    std::vector<std::string> comps;
    if (c.opts.contains("compressions")) for (auto &t : c.opts["compressions"]) comps.push_back(t); else comps = {"None"};
    if (c.opts.value("rotate", false)) {
        // quick tier: element type and compression rotate with the line (a hash of its content, so a stored line replays alike):
        // over the lines of one run every type and every compression setting takes its turn
        std::string key = rec["pre"].dump() + rec["step"].dump();
        unsigned long h = 1469598103934665603UL; for (unsigned char ch : key) { h ^= ch; h *= 1099511628211UL; }
        h += (unsigned long) c.seed;
        static const char *CS[] = {"None", "Deflate", "Auto"};
        types = {"Double", (h / 7) % 2 ? "String" : "Bool", ALL[(size_t) (h % 12)]};
        comps = {CS[(h / 12) % 3]};
    }
    long evals = 0;
    for (auto &cn : comps) {
        nix::Compression comp = cn == "None" ? nix::Compression::None : cn == "Deflate" ? nix::Compression::DeflateNormal : nix::Compression::Auto;
        for (auto &t : types) {
            json v;
            long variant = c.seed % 3;
            if (t == "Bool") v = runType<bool>(c, rec, nix::DataType::Bool, comp, variant, false, evals);
            else if (t == "Int8") v = runType<int8_t>(c, rec, nix::DataType::Int8, comp, variant, true, evals);
            else if (t == "Int16") v = runType<int16_t>(c, rec, nix::DataType::Int16, comp, variant, true, evals);
            else if (t == "Int32") v = runType<int32_t>(c, rec, nix::DataType::Int32, comp, variant, true, evals);
            else if (t == "Int64") v = runType<int64_t>(c, rec, nix::DataType::Int64, comp, variant, true, evals);
            else if (t == "UInt8") v = runType<uint8_t>(c, rec, nix::DataType::UInt8, comp, variant, true, evals);
            else if (t == "UInt16") v = runType<uint16_t>(c, rec, nix::DataType::UInt16, comp, variant, true, evals);
            else if (t == "UInt32") v = runType<uint32_t>(c, rec, nix::DataType::UInt32, comp, variant, true, evals);
            else if (t == "UInt64") v = runType<uint64_t>(c, rec, nix::DataType::UInt64, comp, variant, true, evals);
            else if (t == "Float") v = runType<float>(c, rec, nix::DataType::Float, comp, variant, true, evals);
            else if (t == "Double") v = runType<double>(c, rec, nix::DataType::Double, comp, variant, true, evals);
            else v = runType<std::string>(c, rec, nix::DataType::String, comp, variant, false, evals);
            if (v["v"] != "ok") { v["type"] = t; v["compression"] = cn; v["n"] = evals; if (v.contains("what")) v["what"] = v["what"].get<std::string>() + ":" + t; return v; }
        }
    }
    json r = ok(); r["n"] = evals; return r;
}

Reg reg("data", handle);
}
