// Handler "retr": Tag / MultiTag / slice / feature retrieval (NixRetrieval.tla; C05, C06, C17 slices)
#include "axes.hpp"
#include <numeric>

namespace {

struct RFile {
    nix::File f; long used = 0; bool ready = false;
    void fresh(Ctx &c) {
        if (ready && used < 150) return;
        if (ready) f.close();
        f = nix::File::open(c.path("retr.nix"), nix::FileMode::Overwrite);
        ready = true; used = 0;
    }
};
RFile RF;

struct BuiltDim { ConcreteAxis ax; };

nix::RangeMatch rm(const std::string &m) { return m == "Inclusive" ? nix::RangeMatch::Inclusive : nix::RangeMatch::Exclusive; }

// array with the given dimensions; element value = linear (row-major) index
std::string g_dimUnit;     // when non-empty: sampled / range dimensions carry this unit and requests are made in a prefixed unit
nix::DataArray buildArray(nix::Block &b, const std::string &name, const std::vector<ConcreteAxis> &axes, const std::vector<long> &d) {
    nix::NDSize shape(d.size());
    size_t total = 1;
    for (size_t j = 0; j < d.size(); j++) { shape[j] = (nix::ndsize_t) d[j]; total *= (size_t) d[j]; }
    nix::DataArray a = b.createDataArray(name, "t", nix::DataType::Double, shape);
    std::vector<double> v(total);
    std::iota(v.begin(), v.end(), 0.0);
    a.setData(nix::DataType::Double, v.data(), shape, nix::NDSize(shape.size(), 0));
    for (size_t j = 0; j < axes.size(); j++) {
        const ConcreteAxis &ax = axes[j];
        if (ax.kind == "sampled") { nix::SampledDimension sd = a.appendSampledDimension(ax.interval); sd.offset(ax.offset); if (!g_dimUnit.empty()) sd.unit(g_dimUnit); }
        else if (ax.kind == "range") { nix::RangeDimension rd = a.appendRangeDimension(ax.ticks); if (!g_dimUnit.empty()) rd.unit(g_dimUnit); }
        else if (ax.kind == "setL" || ax.kind == "set0") {
            std::vector<std::string> l;
            if (ax.kind == "setL") for (long i = 0; i < ax.count(); i++) l.push_back("l" + std::to_string(i));
            a.appendSetDimension(l);
        } else {
            std::vector<nix::Column> cols = {{"c0", "", nix::DataType::Double}};
            nix::DataFrame df = b.createDataFrame(name + "_df" + std::to_string(j), "t", cols);
            df.rows((nix::ndsize_t) ax.count());
            a.appendDataFrameDimension(df, 0u);
        }
    }
    return a;
}

std::vector<double> readView(nix::DataView &v) {
    nix::NDSize sh = v.dataExtent();
    std::vector<double> out((size_t) sh.nelms(), -1.0);
    if (!out.empty()) v.getData(nix::DataType::Double, out.data(), sh, nix::NDSize(sh.size(), 0));
    return out;
}

// elements of the block reg (per-dimension off/cnt) of an array of shape d with value = linear index
std::vector<double> expectedElements(const json &reg, const std::vector<long> &d) {
    size_t R = d.size();
    std::vector<long> off(R), cnt(R);
    for (size_t j = 0; j < R; j++) { off[j] = reg[j]["off"]; cnt[j] = reg[j]["cnt"]; }
    std::vector<double> out;
    std::vector<long> idx(R, 0);
    size_t total = 1; for (size_t j = 0; j < R; j++) total *= (size_t) cnt[j];
    for (size_t t = 0; t < total; t++) {
        long lin = 0;
        for (size_t j = 0; j < R; j++) lin = lin * d[j] + (off[j] + idx[j]);
        out.push_back((double) lin);
        for (size_t j = R; j-- > 0;) { if (++idx[j] < cnt[j]) break; idx[j] = 0; }
    }
    return out;
}

json shapeOf(const json &reg) { json s = json::array(); for (auto &r : reg) s.push_back(r["cnt"]); return s; }

// exact re-classification of a double against a concrete axis -> position code of NixAxisDefs
long classify(const ConcreteAxis &ax, double p) {
    long top = ax.unbounded() ? ax.n : ax.n - 1;     // highest modelled coordinate index
    for (long i = 0; i <= top; i++) {
        double x = ax.x(i);
        if (p == x) return 2 * i + 1;
        if (p < x) return 2 * i;
    }
    return 2 * (top + 1);    // above every modelled coordinate
}

struct Concrete {         // one concrete instantiation of a request along one dimension
    double s = 0, ext = 0; bool ok = true;
};

// doubles for (s code, e code, zero) on axis ax such that the library's own s + ext has code e
std::vector<Concrete> concretise(const ConcreteAxis &ax, long s, long e, bool zero, bool absent, bool allVariants) {
    std::vector<Concrete> out;
    std::vector<PosVariant> ps = positionsFor(ax, s, false), pe = positionsFor(ax, e, false);
    if (!allVariants) { if (ps.size() > 1) ps.resize(1); if (pe.size() > 1) pe.resize(1); }
    for (auto &a : ps) {
        if (zero || absent) { Concrete c; c.s = a.p; c.ext = 0.0; out.push_back(c); continue; }
        for (auto &b : pe) {
            Concrete c; c.s = a.p; c.ext = b.p - a.p;
            if (c.ext == 0.0) continue;                        // that would be the "zero" case
            double end = c.s + c.ext;                          // what the library computes
            if (classify(ax, end) != e) continue;              // rounding moved the end: another case covers it
            if (classify(ax, c.s) != s) continue;
            if (e == s && !(c.ext > 0)) continue;              // same gap: keep start < end
            out.push_back(c);
        }
    }
    return out;
}

// the library's own conversion for a generic dimension (used only to recognise the known deviation)
boost::optional<std::pair<nix::ndsize_t, nix::ndsize_t>> libRange(const nix::Dimension &dim, double s, double e, nix::RangeMatch m) {
    switch (dim.dimensionType()) {
    case nix::DimensionType::Sample: return dim.asSampledDimension().indexOf(s, e, m);
    case nix::DimensionType::Range: return dim.asRangeDimension().indexOf(s, e, {}, m);
    case nix::DimensionType::Set: return dim.asSetDimension().indexOf(s, e, m);
    default: return dim.asDataFrameDimension().indexOf(s, e, m);
    }
}
boost::optional<nix::ndsize_t> libGE(const nix::Dimension &dim, double s) {
    switch (dim.dimensionType()) {
    case nix::DimensionType::Sample: return dim.asSampledDimension().indexOf(s, nix::PositionMatch::GreaterOrEqual);
    case nix::DimensionType::Range: return dim.asRangeDimension().indexOf(s, nix::PositionMatch::GreaterOrEqual);
    case nix::DimensionType::Set: return dim.asSetDimension().indexOf(s, nix::PositionMatch::GreaterOrEqual);
    default: return dim.asDataFrameDimension().indexOf(s, nix::PositionMatch::GreaterOrEqual);
    }
}

// C18: the same request expressed in a prefixed unit: values multiplied by S, the library multiplies by f = 1/S.
// Only requests whose rescaling is exact in binary floating point are used.
double g_S = 1.0, g_f = 1.0;
bool rescale(const ConcreteAxis &ax, Concrete &x, long s, long e, bool pointLike) {
    if (g_dimUnit.empty() || !(ax.kind == "sampled" || ax.kind == "range")) return true;
    double s2 = x.s * g_S, e2 = x.ext * g_S;
    if (s2 * g_f != x.s) return false;
    double end = (s2 + e2) * g_f;
    if (pointLike) { if (end != x.s) return false; }
    else if (classify(ax, end) != e || (e == s && !(end > x.s))) return false;
    if (classify(ax, s2 * g_f) != s) return false;
    x.s = s2; x.ext = e2;
    return true;
}
std::string unitFor(const ConcreteAxis &ax, const std::string &scaled) { return (!g_dimUnit.empty() && (ax.kind == "sampled" || ax.kind == "range")) ? scaled : "none"; }

struct Verdict { long evals = 0, bad = 0, known = 0; json first; };

void note(Verdict &v, const std::string &call, const std::string &desc, const json &exp, const json &obs) {
    v.bad++;
    if (v.first.is_null()) v.first = json{{"call", call}, {"axes", desc}, {"expected", exp}, {"observed", obs}};
}

// --- known deviation C05-unspecified: a dimension the tag does not specify is not returned in full but cut to the
// region derived from the positions of the first and the last data element (getMaxExtent / maximumExtents):
// start = x(0), end = x(0) + x(d-1).  Returns true iff `obsOff/obsCnt` (or the observed error) is explained by exactly that.
bool explainedByMaxExtent(const nix::DataArray &a, const std::vector<ConcreteAxis> &axes, const std::vector<long> &d, size_t L,
                          const json &expReg, bool expOk, bool obsThrew, const nix::NDSize &obsOff, const nix::NDSize &obsCnt,
                          nix::RangeMatch match) {
    size_t R = d.size();
    if (L >= R || !expOk) return false;
    bool anyDiff = false;
    for (size_t j = 0; j < R; j++) {
        if (j < L) {   // specified dimensions must be exactly as the specification says
            if (!obsThrew && ((long) obsOff[j] != expReg[j]["off"].get<long>() || (long) obsCnt[j] != expReg[j]["cnt"].get<long>())) return false;
            continue;
        }
        nix::Dimension dim = a.getDimension(j + 1);
        long off = -1, cnt = 0;
        bool derivedThrows = false;
        try {
            // exactly what getMaxExtent derives: position of the first and of the last data element
            double s, last;
            if (axes[j].kind == "sampled") { s = dim.asSampledDimension().positionAt(0); last = dim.asSampledDimension().positionAt((nix::ndsize_t) (d[j] - 1)); }
            else if (axes[j].kind == "range") { s = dim.asRangeDimension().tickAt(0); last = dim.asRangeDimension().tickAt((nix::ndsize_t) (d[j] - 1)); }
            else { s = 0.0; last = (double) (d[j] - 1); }
            double e = s + last;
            auto r = libRange(dim, s, e, match);
            if (r) { off = (long) r->first; cnt = (long) (r->second - r->first + 1); }
            else if (e == s) { auto g = libGE(dim, s); if (g) { off = (long) *g; cnt = 1; } }
        } catch (...) { derivedThrows = true; }
        bool inData = !derivedThrows && off >= 0 && off + cnt <= d[j];
        if (obsThrew) { if (!inData) anyDiff = true; continue; }
        if (derivedThrows || off < 0) return false;
        if ((long) obsOff[j] != off || (long) obsCnt[j] != cnt) return false;
        if (off != 0 || cnt != d[j]) anyDiff = true;
    }
    return anyDiff;
}

std::string g_tagUnit = "ms";
bool g_pairSet = false;
json handleOne(Ctx &c, const json &rec) {
    RF.fresh(c);
    RF.used++;
    if (!g_pairSet) {
        g_dimUnit = c.opts.value("dim_unit", "");
        g_tagUnit = g_tagUnit;
        g_S = c.opts.value("scale", 1.0); g_f = c.opts.value("factor", 1.0);
    }
    const json &cs = rec["c"];
    const json &res = rec["res"];
    std::string t = cs["t"], mode = cs["m"], ext = cs["ext"], lt = cs["lt"];
    bool all = c.opts.value("axes", "quick") == "all";
    size_t R = cs["dims"].size();
    std::vector<long> d(R);
    std::vector<std::vector<ConcreteAxis>> menu(R);
    size_t V = 1;
    for (size_t j = 0; j < R; j++) {
        d[j] = cs["dims"][j]["d"];
        menu[j] = concreteAxes(cs["dims"][j]["k"], cs["dims"][j]["n"], false, c.seed, all);
        V = std::max(V, menu[j].size());
    }
    bool rank1 = (R == 1);
    Verdict v;
    static long serial = 0;
    for (size_t inst = 0; inst < V; inst++) {
        std::vector<ConcreteAxis> axes(R);
        std::string desc;
        for (size_t j = 0; j < R; j++) { axes[j] = menu[j][(inst + j) % menu[j].size()]; desc += axes[j].desc + " "; }
        nix::Block b = RF.f.createBlock("b" + std::to_string(serial++), "t");
        nix::DataArray a = buildArray(b, "data", axes, d);
        bool absent = ext == "absent";

        if (t == "tag" || t == "slice" || t == "ftag") {
            size_t L = cs["P"].size();
            // concrete variants per entry; rank-1 cases take all variants, combinations the first
            std::vector<std::vector<Concrete>> per(L);
            bool feasible = true;
            for (size_t j = 0; j < L; j++) {
                if (j < R) {
                    per[j] = concretise(axes[j], cs["P"][j], cs["E"][j], cs["Z"][j], absent, rank1 && L == 1);
                    std::vector<Concrete> keep;
                    for (auto &x : per[j]) if (rescale(axes[j], x, cs["P"][j], cs["E"][j], absent || cs["Z"][j].get<bool>())) keep.push_back(x);
                    per[j] = keep;
                }
                else { Concrete x; x.s = 1.0; x.ext = 0.0; per[j] = {x}; }      // entries beyond the rank are ignored
                if (per[j].empty()) feasible = false;
            }
            if (!feasible) { RF.f.deleteBlock(b); continue; }
            size_t nv = (L == 1) ? per[0].size() : 1;
            for (size_t vi = 0; vi < nv; vi++) {
                std::vector<double> pos(L), exts(L);
                for (size_t j = 0; j < L; j++) { const Concrete &x = per[j][L == 1 ? vi : 0]; pos[j] = x.s; exts[j] = x.ext; }
                json expReg = res["reg"]; bool expOk = res["ok"];
                json exp = expOk ? json{{"ok", true}, {"elements", expectedElements(expReg, d)}, {"shape", shapeOf(expReg)}} : json{{"ok", false}};
                auto check = [&](const std::string &call, std::function<nix::DataView()> f, bool judgeKnown, nix::RangeMatch match) {
                    json obs; bool threw = false;
                    std::string what;
                    std::string o = outcome([&] { nix::DataView dv = f(); nix::NDSize sh = dv.dataExtent(); json s = json::array(); for (size_t q = 0; q < sh.size(); q++) s.push_back((long) sh[q]);
                                                   obs = json{{"ok", true}, {"elements", readView(dv)}, {"shape", s}}; }, &what);
                    if (o != "ok") { obs = json{{"ok", false}}; threw = true; }
                    v.evals++;
                    if (obs == exp) return;
                    if (judgeKnown) {
                        nix::NDSize oo, oc; bool gthrew = threw;
                        if (!threw) { try { nix::util::getOffsetAndCount(b.getTag("tag"), a, oo, oc, match); } catch (...) { gthrew = true; } }
                        if (explainedByMaxExtent(a, axes, d, L, expReg, expOk, gthrew, oo, oc, match)) { v.known++; return; }
                    }
                    if (threw) obs["what"] = what;
                    json pj = {{"position", json::array()}, {"extent", json::array()}};
                    for (size_t j = 0; j < L; j++) { pj["position"].push_back(hexd(pos[j])); pj["extent"].push_back(hexd(exts[j])); }
                    obs["request"] = pj;
                    note(v, call, desc, exp, obs);
                };
                if (t == "slice") {
                    std::vector<double> st(pos), en(L);
                    for (size_t j = 0; j < L; j++) en[j] = pos[j] + exts[j];
                    std::vector<std::string> us;
                    if (!g_dimUnit.empty()) for (size_t j = 0; j < L && j < R; j++) us.push_back(unitFor(axes[j], g_tagUnit));
                    check("dataSlice", [&] { return nix::util::dataSlice(a, st, en, us, rm(mode)); }, false, rm(mode));
                    continue;
                }
                // every other reference case: the tag is created with ANOTHER position / extent, its handle is used for one retrieval and
                // kept, then the tag gets its definition through a second handle; the checks go through the kept handle
                bool keptTag = (t == "tag") && (RF.used % 2 == 1) && L > 0;
                nix::Tag tag;
                std::vector<std::string> tagUnits;
                if (!g_dimUnit.empty() && L > 0) for (size_t j = 0; j < L; j++) tagUnits.push_back(j < R ? unitFor(axes[j], g_tagUnit) : "none");
                if (keptTag) {
                    std::vector<double> other(pos), oe(L, 0.25);
                    for (auto &q : other) q += 1000.0;
                    tag = b.createTag("tag", "t", other);
                    tag.extent(oe);
                    tag.addReference(a);
                    try { (void) nix::util::taggedData(tag, a, rm(mode)); } catch (...) {}
                    try { (void) tag.position(); (void) tag.extent(); (void) tag.units(); (void) tag.taggedData((size_t) 0); } catch (...) {}
                    nix::Tag t2 = b.getTag("tag");
                    t2.position(pos);
                    if (absent) t2.extent(nix::none); else t2.extent(exts);
                    if (!tagUnits.empty()) t2.units(tagUnits);
                } else {
                    tag = b.createTag("tag", "t", pos);
                    if (!absent) tag.extent(exts);
                    if (!tagUnits.empty()) tag.units(tagUnits);
                }
                nix::RangeMatch effective = (absent || L == 0) ? nix::RangeMatch::Inclusive : rm(mode);   // no extent vector: the library matches inclusively
                if (t == "tag") {
                    if (!keptTag) tag.addReference(a);
                    check("util::taggedData(tag,array)", [&] { return nix::util::taggedData(tag, a, rm(mode)); }, true, effective);
                    check("util::taggedData(tag,0)", [&] { return nix::util::taggedData(tag, (nix::ndsize_t) 0, rm(mode)); }, true, effective);
                    if (mode == "Exclusive") {
                        check("Tag::taggedData(0)", [&] { return tag.taggedData((size_t) 0); }, true, effective);
                        // the other member entry points (by name, by id, deprecated aliases), in rotation
                        switch (RF.used % 4) {
                        case 0: check("Tag::taggedData(name)", [&] { return tag.taggedData(a.name()); }, true, effective); break;
                        case 1: check("Tag::taggedData(id)", [&] { return tag.taggedData(a.id()); }, true, effective); break;
                        case 2: check("Tag::retrieveData(0)", [&] { return tag.retrieveData((size_t) 0); }, true, effective); break;
                        default: check("Tag::retrieveData(name)", [&] { return tag.retrieveData(a.name()); }, true, effective); break;
                        }
                    }
                    // offsets and counts as such
                    if (expOk) {
                        nix::NDSize oo, oc; bool threw = false;
                        try { nix::util::getOffsetAndCount(tag, a, oo, oc, rm(mode)); } catch (...) { threw = true; }
                        v.evals++;
                        bool same = !threw && oo.size() == R;
                        for (size_t j = 0; same && j < R; j++) same = (long) oo[j] == expReg[j]["off"].get<long>() && (long) oc[j] == expReg[j]["cnt"].get<long>();
                        if (!same && !explainedByMaxExtent(a, axes, d, L, expReg, expOk, threw, oo, oc, effective))
                            note(v, "getOffsetAndCount", desc, expReg, threw ? json("threw") : json{{"off", std::vector<long>(oo.begin(), oo.end())}, {"cnt", std::vector<long>(oc.begin(), oc.end())}});
                        else if (!same) v.known++;
                    }
                } else {   // feature of a tag
                    nix::LinkType l = lt == "tagged" ? nix::LinkType::Tagged : lt == "untagged" ? nix::LinkType::Untagged : nix::LinkType::Indexed;
                    nix::Feature ft = tag.createFeature(a, l);
                    check("util::featureData(tag,feature)", [&] { return nix::util::featureData(tag, ft, rm(mode)); }, lt == "tagged", effective);
                    check("util::featureData(tag,0)", [&] { return nix::util::featureData(tag, (nix::ndsize_t) 0, rm(mode)); }, lt == "tagged", effective);
                    if (mode == "Exclusive") {
                        switch (RF.used % 4) {
                        case 0: check("Tag::featureData(0)", [&] { return tag.featureData((size_t) 0); }, lt == "tagged", effective); break;
                        case 1: check("Tag::featureData(id)", [&] { return tag.featureData(ft.id()); }, lt == "tagged", effective); break;
                        case 2: check("Tag::retrieveFeatureData(0)", [&] { return tag.retrieveFeatureData((size_t) 0); }, lt == "tagged", effective); break;
                        default: check("Tag::retrieveFeatureData(id)", [&] { return tag.retrieveFeatureData(ft.id()); }, lt == "tagged", effective); break;
                        }
                    }
                }
                b.deleteTag(tag);
            }
        } else {   // mtag / fmtag
            size_t N = cs["rows"].size();
            size_t L = cs["rows"][0]["P"].size();
            std::vector<double> P(N * L), E(N * L);
            bool feasible = true;
            for (size_t i = 0; i < N && feasible; i++) for (size_t j = 0; j < L; j++) {
                const json &row = cs["rows"][i];
                std::vector<Concrete> cv;
                if (j < R) {
                    cv = concretise(axes[j], row["P"][j], row["E"][j], row["Z"][j], absent, false);
                    std::vector<Concrete> keep;
                    for (auto &x : cv) if (rescale(axes[j], x, row["P"][j], row["E"][j], absent || row["Z"][j].get<bool>())) keep.push_back(x);
                    cv = keep;
                }
                else { Concrete x; x.s = 1.0; cv = {x}; }
                if (cv.empty()) { feasible = false; break; }
                P[i * L + j] = cv[0].s; E[i * L + j] = cv[0].ext;
            }
            if (!feasible) { RF.f.deleteBlock(b); continue; }
            nix::NDSize psh = (R == 1 && L == 1) ? nix::NDSize({(nix::ndsize_t) N}) : nix::NDSize({(nix::ndsize_t) N, (nix::ndsize_t) L});
            // every other reference case: positions / extents first hold OTHER values, the multi-tag handle is used for one retrieval
            // and kept, then the arrays get their real content through fresh handles; the checks go through the kept multi-tag handle
            bool keptMt = (t == "mtag") && (RF.used % 2 == 1);
            nix::DataArray pa = b.createDataArray("positions", "t", nix::DataType::Double, psh);
            std::vector<double> P0(P), E0(E);
            if (keptMt) { for (auto &q : P0) q += 1000.0; for (auto &q : E0) q = 0.25; }
            pa.setData(nix::DataType::Double, P0.data(), psh, nix::NDSize(psh.size(), 0));
            nix::MultiTag mt = b.createMultiTag("mtag", "t", pa);
            if (!g_dimUnit.empty()) { std::vector<std::string> us; for (size_t j = 0; j < L && j < R; j++) us.push_back(unitFor(axes[j], g_tagUnit)); mt.units(us); }
            if (!absent) {
                nix::DataArray ea = b.createDataArray("extents", "t", nix::DataType::Double, psh);
                ea.setData(nix::DataType::Double, E0.data(), psh, nix::NDSize(psh.size(), 0));
                mt.extents(ea);
            }
            if (keptMt) {
                mt.addReference(a);
                try { (void) nix::util::taggedData(mt, (nix::ndsize_t) 0, a, rm(mode)); } catch (...) {}
                try { (void) mt.positions(); (void) mt.extents(); (void) mt.units(); (void) mt.taggedData((size_t) 0, (size_t) 0); } catch (...) {}
                b.getDataArray("positions").setData(nix::DataType::Double, P.data(), psh, nix::NDSize(psh.size(), 0));
                if (!absent) b.getDataArray("extents").setData(nix::DataType::Double, E.data(), psh, nix::NDSize(psh.size(), 0));
            }
            std::vector<nix::ndsize_t> idx;
            for (auto &x : cs["idx"]) idx.push_back((nix::ndsize_t) x.get<long>());
            nix::RangeMatch effective = rm(mode);
            auto viewJson = [&](nix::DataView dv) { nix::NDSize sh = dv.dataExtent(); json s = json::array(); for (size_t q = 0; q < sh.size(); q++) s.push_back((long) sh[q]);
                                                     return json{{"elements", readView(dv)}, {"shape", s}}; };
            // known deviation for a single index (row i)
            auto knownRow = [&](size_t qi, bool threw) {
                if (res["ok"].get<bool>() == false) return false;
                nix::NDSize oo, oc; bool gthrew = threw;
                if (!threw) { try { nix::util::getOffsetAndCount(mt, a, idx[qi], oo, oc, effective); } catch (...) { gthrew = true; } }
                return explainedByMaxExtent(a, axes, d, L, res["regs"][qi], true, gthrew, oo, oc, effective);
            };
            if (t == "mtag") {
                if (!keptMt) mt.addReference(a);
                json exp;
                if (res["ok"]) { exp = json{{"ok", true}, {"views", json::array()}}; for (auto &rg : res["regs"]) exp["views"].push_back({{"elements", expectedElements(rg, d)}, {"shape", shapeOf(rg)}}); }
                else exp = json{{"ok", false}};
                auto checkList = [&](const std::string &call, std::function<std::vector<nix::DataView>()> f) {
                    json obs; std::string what; bool threw = false;
                    std::string o = outcome([&] { std::vector<nix::DataView> vs = f(); obs = json{{"ok", true}, {"views", json::array()}}; for (auto &dv : vs) obs["views"].push_back(viewJson(dv)); }, &what);
                    if (o != "ok") { obs = json{{"ok", false}, {"what", what}}; threw = true; }
                    v.evals++;
                    if (obs["ok"] == exp["ok"] && (!exp["ok"].get<bool>() || obs["views"] == exp["views"])) return;
                    // explained by the known deviation in every differing row?
                    bool allKnown = res["ok"].get<bool>();
                    for (size_t qi = 0; allKnown && qi < idx.size(); qi++) {
                        bool rowSame = !threw && qi < obs["views"].size() && obs["views"][qi] == exp["views"][qi];
                        if (!rowSame && !knownRow(qi, threw)) allKnown = false;
                    }
                    if (allKnown) { v.known++; return; }
                    note(v, call, desc, exp, obs);
                };
                checkList("util::taggedData(mtag,indices,array)", [&] { std::vector<nix::ndsize_t> ii(idx); return nix::util::taggedData(mt, ii, a, rm(mode)); });
                checkList("util::taggedData(mtag,indices,0)", [&] { std::vector<nix::ndsize_t> ii(idx); return nix::util::taggedData(mt, ii, (nix::ndsize_t) 0, rm(mode)); });
                // the list must equal the single retrievals
                checkList("singles util::taggedData(mtag,i,array)", [&] { std::vector<nix::DataView> vs; for (auto i : idx) vs.push_back(nix::util::taggedData(mt, i, a, rm(mode))); return vs; });
                if (mode == "Exclusive") {
                    checkList("singles MultiTag::taggedData(i,0)", [&] { std::vector<nix::DataView> vs; for (auto i : idx) vs.push_back(mt.taggedData((size_t) i, (size_t) 0)); return vs; });
                    switch (RF.used % 6) {
                    case 0: checkList("MultiTag::taggedData(indices,0)", [&] { std::vector<nix::ndsize_t> ii(idx); return mt.taggedData(ii, (nix::ndsize_t) 0); }); break;
                    case 1: checkList("MultiTag::taggedData(indices,name)", [&] { std::vector<nix::ndsize_t> ii(idx); return mt.taggedData(ii, a.name()); }); break;
                    case 2: checkList("MultiTag::retrieveData(indices,id)", [&] { std::vector<nix::ndsize_t> ii(idx); return mt.retrieveData(ii, a.id()); }); break;
                    case 3: checkList("singles MultiTag::taggedData(i,name)", [&] { std::vector<nix::DataView> vs; for (auto i : idx) vs.push_back(mt.taggedData((size_t) i, a.name())); return vs; }); break;
                    case 4: checkList("singles MultiTag::retrieveData(i,0)", [&] { std::vector<nix::DataView> vs; for (auto i : idx) vs.push_back(mt.retrieveData((size_t) i, (size_t) 0)); return vs; }); break;
                    default: checkList("singles MultiTag::retrieveData(i,id)", [&] { std::vector<nix::DataView> vs; for (auto i : idx) vs.push_back(mt.retrieveData((size_t) i, a.id())); return vs; }); break;
                    }
                }
            } else {
                nix::LinkType l = lt == "tagged" ? nix::LinkType::Tagged : lt == "untagged" ? nix::LinkType::Untagged : nix::LinkType::Indexed;
                nix::Feature ft = mt.createFeature(a, l);
                json exp = res["ok"].get<bool>() ? json{{"ok", true}, {"elements", expectedElements(res["reg"], d)}, {"shape", shapeOf(res["reg"])}} : json{{"ok", false}};
                auto check = [&](const std::string &call, std::function<nix::DataView()> f) {
                    json obs; std::string what; bool threw = false;
                    std::string o = outcome([&] { json vj = viewJson(f()); obs = json{{"ok", true}, {"elements", vj["elements"]}, {"shape", vj["shape"]}}; }, &what);
                    if (o != "ok") { obs = json{{"ok", false}}; threw = true; }
                    v.evals++;
                    if (obs == exp) return;
                    if (lt == "tagged" && res["ok"].get<bool>()) {
                        nix::NDSize oo, oc; bool gthrew = threw;
                        if (!threw) { try { nix::util::getOffsetAndCount(mt, a, idx[0], oo, oc, effective); } catch (...) { gthrew = true; } }
                        if (explainedByMaxExtent(a, axes, d, L, res["reg"], true, gthrew, oo, oc, effective)) { v.known++; return; }
                    }
                    if (threw) obs["what"] = what;
                    note(v, call, desc, exp, obs);
                };
                check("util::featureData(mtag,i,feature)", [&] { return nix::util::featureData(mt, idx[0], ft, rm(mode)); });
                check("util::featureData(mtag,i,0)", [&] { return nix::util::featureData(mt, idx[0], (nix::ndsize_t) 0, rm(mode)); });
                if (mode == "Exclusive") {
                    switch (RF.used % 4) {
                    case 0: check("MultiTag::featureData(i,0)", [&] { return mt.featureData((size_t) idx[0], (size_t) 0); }); break;
                    case 1: check("MultiTag::featureData(i,id)", [&] { return mt.featureData((size_t) idx[0], ft.id()); }); break;
                    case 2: check("MultiTag::retrieveFeatureData(i,0)", [&] { return mt.retrieveFeatureData((size_t) idx[0], (size_t) 0); }); break;
                    default: check("MultiTag::retrieveFeatureData(i,id)", [&] { return mt.retrieveFeatureData((size_t) idx[0], ft.id()); }); break;
                    }
                }
            }
        }
        RF.f.deleteBlock(b);
    }
    json r = v.bad ? mismatch("retr:" + t + ":" + v.first["call"].get<std::string>(), v.first["expected"], v.first["observed"]) : ok();
    r["n"] = v.evals;
    if (v.bad) { r["bad"] = v.bad; r["first"] = v.first; }
    if (v.known) r["known"] = std::vector<std::string>{t == "mtag" || t == "fmtag" ? "C06-unspecified-dim" : "C05-unspecified-dim"};
    return r;
}

// with "unit_pairs" = [[dimension unit, request unit, scale, factor], ...] the same case is executed once per pair, one after the
// other in this process (a conversion must not depend on which conversions were asked for before: pairs come in both directions)
json handle(Ctx &c, const json &rec) {
    if (!c.opts.contains("unit_pairs")) { g_pairSet = false; return handleOne(c, rec); }
    json last; long n = 0;
    for (const json &p : c.opts["unit_pairs"]) {
        g_pairSet = true;
        g_dimUnit = p[0].get<std::string>(); g_tagUnit = p[1].get<std::string>(); g_S = p[2].get<double>(); g_f = p[3].get<double>();
        last = handleOne(c, rec);
        n += last.value("n", 1L);
        if (last.value("v", "") != "ok" && last.value("v", "") != "unjudgeable") { last["unit_pair"] = p; g_pairSet = false; return last; }
    }
    g_pairSet = false;
    last["n"] = n;
    return last;
}
Reg reg("retr", handle);
}
