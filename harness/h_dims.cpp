// Handler "dims": histories of NixDims.tla on the dimension descriptors of a real DataArray (C13; rejects also C08)
#include "common.hpp"

namespace {

double intervalOf(long c) { return c == 1 ? 0.5 : c == 2 ? 2.0 : c == -1 ? 0.0 : -1.0; }
double offsetOf(long c) { return c == 1 ? 1.5 : c == 2 ? -2.5 : 0.0; }
// (integral, non-negative values: representable in every numeric element type an alias array may have)
std::vector<double> ticksOf(long c) { if (c == 1) return {1.0, 2.0, 4.0}; if (c == 2) return {0.0, 3.0}; if (c == -1) return {3.0, 1.0, 2.0}; return {}; }
std::string unitOf(long c) { return c == 1 ? "ms" : c == 2 ? "mV" : c == -1 ? "foo" : ""; }
std::string labelOf(long c) { return c == 1 ? "time" : c == 2 ? "dist" : ""; }
std::vector<std::string> labelsOf(long c) { if (c == 1) return {"a", "b"}; if (c == 2) return {"x"}; return {}; }

long codeInterval(double v) { return v == 0.5 ? 1 : v == 2.0 ? 2 : -99; }
long codeOffset(const boost::optional<double> &o) { if (!o || *o == 0.0) return 0; return *o == 1.5 ? 1 : *o == -2.5 ? 2 : -99; }
long codeTicks(const std::vector<double> &t) { if (t == ticksOf(1)) return 1; if (t == ticksOf(2)) return 2; if (t.empty() || t == std::vector<double>{0.0}) return 0; return -99; }
long codeUnit(const boost::optional<std::string> &u) { if (!u) return 0; return *u == "ms" ? 1 : *u == "mV" ? 2 : -99; }
long codeLabel(const boost::optional<std::string> &u) { if (!u) return 0; return *u == "time" ? 1 : *u == "dist" ? 2 : -99; }
long codeLabels(const std::vector<std::string> &l) { if (l.empty()) return 0; if (l == labelsOf(1)) return 1; if (l == labelsOf(2)) return 2; return -99; }

// typed descriptor handles as the append calls returned them, kept on the heap and never copied (a handle object may remember
// things); valid until the descriptors are deleted or the session ends
struct Kept { bool any() const { return se || sa || ra || fr; } std::shared_ptr<nix::SetDimension> se; std::shared_ptr<nix::SampledDimension> sa; std::shared_ptr<nix::RangeDimension> ra; std::shared_ptr<nix::DataFrameDimension> fr; };
struct S {
    std::vector<Kept> kept;
    nix::File f; nix::Block b; nix::DataArray a; nix::DataFrame df;
    // a second handle of the same array, looked up once per session and kept on the heap: it reads after every call, and every
    // third call is made through it - what one handle of an entity did must be what every other handle of it shows
    std::shared_ptr<nix::DataArray> a2;
    nix::DataArray &w(long k) { return (k % 3 == 1 && a2) ? *a2 : a; }
    std::string path; bool numeric; long rank; nix::DataType numType = nix::DataType::Double;
    void create() {
        f = nix::File::open(path, nix::FileMode::Overwrite);
        b = f.createBlock("b", "t");
        nix::NDSize sh = rank == 1 ? nix::NDSize({1}) : nix::NDSize({2, 2});
        a = b.createDataArray("a", "t", numeric ? numType : nix::DataType::String, sh);
        std::vector<nix::Column> cols = {{"c0", "ms", nix::DataType::Double}, {"c1", "", nix::DataType::Int64}};
        df = b.createDataFrame("df", "t", cols);
        df.rows(2);
        a2 = std::make_shared<nix::DataArray>(b.getDataArray("a"));
    }
    void reopen(bool ro) {
        kept.assign((size_t) a.dimensionCount(), Kept{});      // the old handles die with the session; positions stay aligned with the descriptors
        f.close();
        f = nix::File::open(path, ro ? nix::FileMode::ReadOnly : nix::FileMode::ReadWrite);
        b = f.getBlock("b"); a = b.getDataArray("a"); df = b.getDataFrame("df");
        a2 = std::make_shared<nix::DataArray>(f.getBlock(0).getDataArray(0));
    }
};

// the getters of a kept handle (same codes as the fresh observation)
json keptView(const Kept &k) {
    json r = {{"labels", 0}, {"interval", 0}, {"offset", 0}, {"ticks", 0}, {"label", 0}, {"unit", 0}};
    if (k.se) { r["labels"] = codeLabels(k.se->labels()); r["label"] = codeLabel(k.se->label()); }
    else if (k.sa) { r["interval"] = codeInterval(k.sa->samplingInterval()); r["offset"] = codeOffset(k.sa->offset()); r["label"] = codeLabel(k.sa->label()); r["unit"] = codeUnit(k.sa->unit()); }
    else if (k.ra) { std::vector<double> t; try { t = k.ra->ticks(); } catch (...) {} r["ticks"] = codeTicks(t); r["label"] = codeLabel(k.ra->label()); r["unit"] = codeUnit(k.ra->unit()); }
    else if (k.fr) { auto ci = k.fr->columnIndex(); r["col"] = ci ? (long) *ci : -1; r["size"] = (long) k.fr->size(); }
    return r;
}

json observe(S &s) {
    json o = {{"dims", json::array()}, {"issues", json::array()}};
    std::vector<nix::Dimension> ds = s.a.dimensions();
    if (ds.size() != s.a.dimensionCount()) o["issues"].push_back("dimensionCount disagrees with dimensions()");
    for (size_t i = 0; i < ds.size(); i++) {
        nix::Dimension d = ds[i];
        json r = {{"k", ""}, {"labels", 0}, {"interval", 0}, {"offset", 0}, {"ticks", 0}, {"label", 0}, {"unit", 0}, {"col", -1}};
        if (d.index() != i + 1) o["issues"].push_back("descriptor " + std::to_string(i + 1) + " reports index " + std::to_string(d.index()));
        nix::Dimension byIdx = s.a.getDimension(i + 1);
        if (!byIdx || byIdx.dimensionType() != d.dimensionType()) o["issues"].push_back("getDimension(i) disagrees with dimensions()");
        switch (d.dimensionType()) {
        case nix::DimensionType::Set: { auto x = d.asSetDimension(); r["k"] = "set"; r["labels"] = codeLabels(x.labels()); r["label"] = codeLabel(x.label()); break; }
        case nix::DimensionType::Sample: { auto x = d.asSampledDimension(); r["k"] = "sampled"; r["interval"] = codeInterval(x.samplingInterval());
            r["offset"] = codeOffset(x.offset()); r["label"] = codeLabel(x.label()); r["unit"] = codeUnit(x.unit()); break; }
        case nix::DimensionType::Range: { auto x = d.asRangeDimension(); r["k"] = x.alias() ? "alias" : "range";
            std::vector<double> t; try { t = x.ticks(); } catch (const std::exception &e) { o["issues"].push_back(std::string("ticks() threw: ") + e.what()); }
            r["ticks"] = codeTicks(t); r["label"] = codeLabel(x.label()); r["unit"] = codeUnit(x.unit());
            // the partial read paths must agree with the full tick vector
            try {
                for (size_t q = 0; q < t.size(); q++) if (x.tickAt(q) != t[q]) { o["issues"].push_back("tickAt(" + std::to_string(q) + ") differs from ticks()"); break; }
                if (!t.empty()) { std::vector<double> ax = x.axis(t.size(), 0); if (ax != t) o["issues"].push_back("axis(count, 0) differs from ticks()");
                                  if (t.size() >= 2) { std::vector<double> ax2 = x.axis(t.size() - 1, 1); if (ax2 != std::vector<double>(t.begin() + 1, t.end())) o["issues"].push_back("axis(count-1, 1) differs from ticks()"); } }
            } catch (const std::exception &e) { o["issues"].push_back(std::string("partial tick read threw: ") + e.what()); }
            if (!std::is_sorted(t.begin(), t.end())) o["issues"].push_back("ticks are not ascending");
            break; }
        default: { auto x = d.asDataFrameDimension(); r["k"] = "frame"; auto ci = x.columnIndex(); r["col"] = ci ? (long) *ci : -1;
            nix::DataFrame df = x.data(); if (!df || df.id() != s.df.id()) o["issues"].push_back("data-frame dimension lost its frame");
            // label / unit / column type of the dimension are those of the frame's column (or of the frame when no column is set)
            try {
                if (x.size() != s.df.rows()) o["issues"].push_back("data-frame dimension size differs from the frame's row count");
                std::vector<nix::Column> cols = s.df.columns();
                for (unsigned q = 0; q < cols.size(); q++) {
                    if (x.label(q) != cols[q].name) o["issues"].push_back("data-frame dimension label(col) differs from the column name");
                    if (x.unit(q) != cols[q].unit) o["issues"].push_back("data-frame dimension unit(col) differs from the column unit");
                    if (x.columnDataType(q) != cols[q].dtype) o["issues"].push_back("data-frame dimension columnDataType(col) differs");
                }
                if (ci && *ci >= cols.size()) { /* BoundaryColumn (index == number of columns): no column attributes to compare */ }
                else if (ci) { if (x.label() != cols[*ci].name || x.unit() != cols[*ci].unit || x.columnDataType() != cols[*ci].dtype) o["issues"].push_back("data-frame dimension default column attributes differ"); }
                else if (x.label() != s.df.name()) o["issues"].push_back("data-frame dimension without column: label is not the frame's name");
            } catch (const std::exception &e) { o["issues"].push_back(std::string("data-frame dimension getter threw: ") + e.what()); }
            break; }
        }
        // a handle the client kept from the append call must show what a fresh look-up shows
        if (i < s.kept.size() && s.kept[i].any()) {
            try {
                json kv = keptView(s.kept[i]);
                for (const char *f : {"labels", "interval", "offset", "ticks", "label", "unit"})
                    if (!s.kept[i].fr && kv[f] != r[f]) o["issues"].push_back(std::string("kept handle of descriptor ") + std::to_string(i + 1) + " shows another " + f + " than a fresh look-up");
                if (s.kept[i].fr && (kv["col"] != r["col"] || kv["size"].get<long>() != (long) s.df.rows())) o["issues"].push_back("kept data-frame dimension handle differs from a fresh look-up");
            } catch (const std::exception &e) { o["issues"].push_back(std::string("kept handle getter threw: ") + e.what()); }
        }
        o["dims"].push_back(r);
    }
    // the second handle of the array must show the same descriptors (count, numbering, kinds, attributes that have a code)
    if (s.a2) {
        try {
            std::vector<nix::Dimension> d2 = s.a2->dimensions();
            if (s.a2->dimensionCount() != ds.size() || d2.size() != ds.size())
                o["issues"].push_back("a second handle of the array shows " + std::to_string(s.a2->dimensionCount()) + " / " + std::to_string(d2.size()) + " descriptors, the first " + std::to_string(ds.size()));
            else for (size_t i = 0; i < ds.size(); i++) {
                if (d2[i].dimensionType() != ds[i].dimensionType() || d2[i].index() != ds[i].index()) { o["issues"].push_back("a second handle of the array shows another kind / index for descriptor " + std::to_string(i + 1)); continue; }
                const json &r = o["dims"][i];
                if (r["k"] == "sampled") { auto x = d2[i].asSampledDimension(); if (codeInterval(x.samplingInterval()) != r["interval"] || codeOffset(x.offset()) != r["offset"] || codeLabel(x.label()) != r["label"] || codeUnit(x.unit()) != r["unit"]) o["issues"].push_back("a second handle of the array shows other attributes for sampled descriptor " + std::to_string(i + 1)); }
                else if (r["k"] == "set") { auto x = d2[i].asSetDimension(); if (codeLabels(x.labels()) != r["labels"] || codeLabel(x.label()) != r["label"]) o["issues"].push_back("a second handle of the array shows other attributes for set descriptor " + std::to_string(i + 1)); }
                else if (r["k"] == "range" || r["k"] == "alias") { auto x = d2[i].asRangeDimension(); std::vector<double> t; try { t = x.ticks(); } catch (...) {}
                    if (codeTicks(t) != r["ticks"] || codeLabel(x.label()) != r["label"] || codeUnit(x.unit()) != r["unit"]) o["issues"].push_back("a second handle of the array shows other attributes for range descriptor " + std::to_string(i + 1)); }
            }
            if (codeLabel(s.a2->label()) != codeLabel(s.a.label()) || s.a2->unit() != s.a.unit()) o["issues"].push_back("a second handle of the array shows another label / unit");
        } catch (const std::exception &e) { o["issues"].push_back(std::string("getter of the second array handle threw: ") + e.what()); }
    }
    // the array's own label / unit / data
    json ar = {{"label", codeLabel(s.a.label())}, {"unit", 0}, {"data", 0}};
    boost::optional<std::string> u = s.a.unit();
    ar["unit"] = !u ? 0 : (*u == "ms" ? 1 : *u == "mV" ? 2 : *u == "foo" ? -1 : -99);
    if (s.numeric && s.rank == 1) {
        nix::NDSize e = s.a.dataExtent();
        std::vector<double> d((size_t) e.nelms());
        if (!d.empty()) s.a.getDataDirect(nix::DataType::Double, d.data(), e, nix::NDSize(1, 0));
        ar["data"] = (d == ticksOf(1)) ? 1 : (d == ticksOf(2)) ? 2 : (d == std::vector<double>{0.0}) ? 0 : -99;
    }
    o["arr"] = ar;
    return o;
}

std::string doStep(S &s, const json &st, long k) {
    std::string a = st["a"]; long i = st["i"]; const json &v = st["v"];
    long x = v["x"], y = v["y"], z = v["z"], w = v["w"];
    // the deprecated create*Dimension(index, ...) entry points (the index is ignored: they append) take their turn where their
    // arguments can express the call (no label / unit / offset arguments)
    if (a == "AppendSet" && x == 0 && k % 3 == 2) return outcome([&] { Kept q; q.se = std::make_shared<nix::SetDimension>(s.w(k).createSetDimension((nix::ndsize_t) (s.a.dimensionCount() + 1))); s.kept.push_back(q); });
    if (a == "AppendSampled" && y == 0 && z == 0 && w == 0 && k % 2 == 1) return outcome([&] { Kept q; q.sa = std::make_shared<nix::SampledDimension>(s.w(k).createSampledDimension((nix::ndsize_t) (s.a.dimensionCount() + 1), intervalOf(x))); s.kept.push_back(q); });
    if (a == "AppendRange" && y == 0 && z == 0 && k % 2 == 1) return outcome([&] { Kept q; q.ra = std::make_shared<nix::RangeDimension>(s.w(k).createRangeDimension((nix::ndsize_t) (s.a.dimensionCount() + 1), ticksOf(x))); s.kept.push_back(q); });
    if (a == "AppendAlias" && k % 2 == 1) return outcome([&] { Kept q; q.ra = std::make_shared<nix::RangeDimension>(s.w(k).createAliasRangeDimension()); s.kept.push_back(q); });
    if (a == "AppendSet") return outcome([&] { Kept q; q.se = std::make_shared<nix::SetDimension>(s.w(k).appendSetDimension(labelsOf(x))); s.kept.push_back(q); });
    if (a == "AppendSampled") return outcome([&] { Kept q; q.sa = std::make_shared<nix::SampledDimension>(s.w(k).appendSampledDimension(intervalOf(x), labelOf(y), unitOf(z), offsetOf(w))); s.kept.push_back(q); });
    if (a == "AppendRange") return outcome([&] { Kept q; q.ra = std::make_shared<nix::RangeDimension>(s.w(k).appendRangeDimension(ticksOf(x), labelOf(y), unitOf(z))); s.kept.push_back(q); });
    if (a == "AppendAlias") return outcome([&] { Kept q; q.ra = std::make_shared<nix::RangeDimension>(s.w(k).appendAliasRangeDimension()); s.kept.push_back(q); });
    if (a == "AppendFrame") return outcome([&] { Kept q; if (x == -1) q.fr = std::make_shared<nix::DataFrameDimension>(s.w(k).appendDataFrameDimension(s.df)); else if (k % 2 && x < 2) q.fr = std::make_shared<nix::DataFrameDimension>(s.w(k).appendDataFrameDimension(s.df, x == 0 ? "c0" : "c1")); else q.fr = std::make_shared<nix::DataFrameDimension>(s.w(k).appendDataFrameDimension(s.df, (unsigned) x)); s.kept.push_back(q); });
    if (a == "DeleteAll") return outcome([&] { s.kept.clear(); s.w(k).deleteDimensions(); });
    if (a == "Reopen") return outcome([&] { s.reopen(false); });
    if (a.rfind("Set_", 0) == 0) {
        std::string f = a.substr(4);
        // every other call goes through the handle kept from the append call instead of a fresh look-up
        if (k % 2 == 0 && i >= 1 && (size_t) i <= s.kept.size()) {
            Kept &q = s.kept[(size_t) i - 1];
            if (f == "labels" && q.se) return outcome([&] { if (x == 0) q.se->labels(nix::none); else q.se->labels(labelsOf(x)); });
            if (f == "interval" && q.sa) return outcome([&] { q.sa->samplingInterval(intervalOf(x)); });
            if (f == "offset" && q.sa) return outcome([&] { if (x == 0) q.sa->offset(nix::none); else q.sa->offset(offsetOf(x)); });
            if (f == "ticks" && q.ra) return outcome([&] { q.ra->ticks(ticksOf(x)); });
            if (f == "label" && q.se) return outcome([&] { if (x == 0) q.se->label(nix::none); else q.se->label(labelOf(x)); });
            if (f == "label" && q.sa) return outcome([&] { if (x == 0) q.sa->label(nix::none); else q.sa->label(labelOf(x)); });
            if (f == "label" && q.ra) return outcome([&] { if (x == 0) q.ra->label(nix::none); else q.ra->label(labelOf(x)); });
            if (f == "unit" && q.sa) return outcome([&] { if (x == 0) q.sa->unit(nix::none); else q.sa->unit(unitOf(x)); });
            if (f == "unit" && q.ra) return outcome([&] { if (x == 0) q.ra->unit(nix::none); else q.ra->unit(unitOf(x)); });
        }
        return outcome([&] {
            nix::Dimension d = s.w(k).getDimension((nix::ndsize_t) i);
            if (f == "labels") { auto sd = d.asSetDimension(); if (x == 0) { if (k % 2) sd.labels(std::vector<std::string>{}); else sd.labels(nix::none); } else sd.labels(labelsOf(x)); }
            else if (f == "interval") d.asSampledDimension().samplingInterval(intervalOf(x));
            else if (f == "offset") { auto sd = d.asSampledDimension(); if (x == 0) sd.offset(nix::none); else sd.offset(offsetOf(x)); }
            else if (f == "ticks") d.asRangeDimension().ticks(ticksOf(x));
            else if (f == "label") {
                switch (d.dimensionType()) {
                case nix::DimensionType::Set: { auto q = d.asSetDimension(); if (x == 0) q.label(nix::none); else q.label(labelOf(x)); break; }
                case nix::DimensionType::Sample: { auto q = d.asSampledDimension(); if (x == 0) q.label(nix::none); else q.label(labelOf(x)); break; }
                default: { auto q = d.asRangeDimension(); if (x == 0) q.label(nix::none); else q.label(labelOf(x)); break; }
                }
            } else if (f == "unit") {
                if (d.dimensionType() == nix::DimensionType::Sample) { auto q = d.asSampledDimension(); if (x == 0) q.unit(nix::none); else q.unit(unitOf(x)); }
                else { auto q = d.asRangeDimension(); if (x == 0) q.unit(nix::none); else q.unit(unitOf(x)); }
            }
        });
    }
    if (a.rfind("SetArr_", 0) == 0) {
        std::string f = a.substr(7);
        return outcome([&] {
            if (f == "label") { if (x == 0) s.w(k).label(nix::none); else s.w(k).label(labelOf(x)); }
            else if (f == "unit") { if (x == 0) s.w(k).unit(nix::none); else s.w(k).unit(unitOf(x)); }
            else { std::vector<double> t = ticksOf(x); s.w(k).dataExtent(nix::NDSize({(nix::ndsize_t) t.size()}));
                   s.w(k).setData(nix::DataType::Double, t.data(), nix::NDSize({(nix::ndsize_t) t.size()}), nix::NDSize({0})); }
        });
    }
    throw std::runtime_error("harness: unknown dims action " + a);
}

json handle(Ctx &c, const json &rec) {
    S s; s.path = c.path("dims.nix");
    s.numeric = c.opts.value("numeric", true);
    { static const nix::DataType NT[] = {nix::DataType::Double, nix::DataType::Int64, nix::DataType::Float, nix::DataType::Int32, nix::DataType::UInt8};
      s.numType = NT[(size_t) ((c.seed + (long) rec["pre"].size()) % 5)]; }
    s.rank = c.opts.value("rank", 2L);
    s.create();
    std::vector<json> all(rec["pre"].begin(), rec["pre"].end());
    all.push_back(rec["step"]);
    json result = ok();
    for (size_t i = 0; i < all.size(); i++) {
        bool last = i + 1 == all.size();
        // C08 speaks about every call the LIBRARY rejects, whatever the specification expected: the state before the judged
        // call is observed as well, and a rejected call must leave exactly that state
        json before; if (last) before = observe(s);
        std::string r = doStep(s, all[i], (long) i);
        if (last && r == "reject") {
            json after = observe(s);
            std::string d0 = firstDiff(before, after);
            if (d0.empty()) { s.reopen(true); after = observe(s); d0 = firstDiff(before, after); if (!d0.empty()) d0 = "after reopen: " + d0; }
            if (!d0.empty()) { result = mismatch("rejected call left a trace:" + all[i]["a"].get<std::string>() + ":" + d0, before, after); result["c08"] = true; break; }
        }
        if (last && c.opts.value("c08_only", false) && r == all[i]["res"].get<std::string>()) break;      // accepted as predicted: not C08's business
        if (r != all[i]["res"].get<std::string>()) {
            if (!last) { result = json{{"v", "unjudgeable"}, {"what", "prefix step outcome differs"}, {"step", all[i]}, {"observed", r}}; break; }
            result = mismatch("outcome:" + all[i]["a"].get<std::string>(), all[i]["res"], r);
            break;
        }
        if (!last) { for (auto &q : s.kept) { try { if (q.any()) (void) keptView(q); } catch (...) {} }
                     try { if (s.a2) { (void) s.a2->dimensionCount(); for (auto &d : s.a2->dimensions()) (void) d.dimensionType(); (void) s.a2->label(); (void) s.a2->unit(); }
                           (void) s.a.dimensionCount(); for (auto &d : s.a.dimensions()) (void) d.dimensionType(); } catch (...) {} }
        if (last) {
            json exp = rec["post"]; exp["issues"] = json::array();
            for (auto &d : exp["dims"]) if (d["col"].is_null()) d["col"] = -1;
            if (!(s.numeric && s.rank == 1)) exp["arr"]["data"] = 0;
            json obs = observe(s);
            std::string d = firstDiff(exp, obs);
            if (!d.empty()) { result = mismatch("obs:" + d, exp, obs); break; }
            // and the same after close + reopen (read-only)
            s.reopen(true);
            json obs2 = observe(s);
            std::string d2 = firstDiff(exp, obs2);
            if (!d2.empty()) result = mismatch("reopen-obs:" + d2, exp, obs2);
        }
    }
    try { s.f.close(); } catch (...) {}
    return result;
}

Reg reg("dims", handle);
}
