// Handler "ids": records a multi-process execution (Start / CreateId / Reread events) for NixIdsTrace.tla (C12)
#include "common.hpp"
#include <sys/wait.h>
#include <fstream>
#include <regex>
#include <ctime>
#include <thread>

namespace {

bool wellFormed(const std::string &id) {
    static const std::regex re("^[0-9a-f]{8}-[0-9a-f]{4}-[0-9a-f]{4}-[0-9a-f]{4}-[0-9a-f]{12}$");
    return std::regex_match(id, re);
}

// creates n entities of all kinds in `f` on behalf of execution context `proc` and logs their ids
void createEntities(nix::File &f, const std::string &file, const std::string &proc, long n, std::ostream &out, bool logFileId, const std::string &batch = "") {
    auto emit = [&](const std::string &kind, const std::string &name, const std::string &id) {
        out << json{{"e", "CreateId"}, {"p", proc}, {"id", id}, {"kind", kind}, {"name", name}, {"file", file}, {"owner", proc + batch + "_b"}, {"wellformed", wellFormed(id)}}.dump() << "\n"; };
    if (logFileId) emit("file", "", f.id());
    std::string tagp = proc + batch + "_";
    nix::Block b = f.createBlock(tagp + "b", "t"); emit("block", b.name(), b.id());
    nix::Section s = f.createSection(tagp + "s", "t"); emit("section", s.name(), s.id());
    nix::DataArray a0 = b.createDataArray(tagp + "a0", "t", nix::DataType::Double, nix::NDSize({2})); emit("array", a0.name(), a0.id());
    for (long i = 0; i < n; i++) {
        std::string nm = tagp + std::to_string(i);
        switch (i % 9) {
        case 0: { auto x = b.createDataArray(nm, "t", nix::DataType::Double, nix::NDSize({1})); emit("array", nm, x.id()); break; }
        case 1: { auto x = b.createTag(nm, "t", {1.0}); emit("tag", nm, x.id()); auto ft = x.createFeature(a0, nix::LinkType::Tagged); emit("feature", "", ft.id()); break; }
        case 2: { auto x = b.createMultiTag(nm, "t", a0); emit("mtag", nm, x.id()); break; }
        case 3: { auto x = b.createGroup(nm, "t"); emit("group", nm, x.id()); break; }
        case 4: { auto x = b.createSource(nm, "t"); emit("source", nm, x.id()); auto y = x.createSource(nm, "t"); emit("source", "", y.id()); break; }
        case 5: { auto x = s.createSection(nm, "t"); emit("section", "", x.id()); break; }
        case 6: { auto x = s.createProperty(nm, nix::Variant(1.0)); emit("prop", "", x.id()); break; }
        case 7: { std::vector<nix::Column> cols = {{"c", "", nix::DataType::Double}}; auto x = b.createDataFrame(nm, "t", cols); emit("frame", nm, x.id()); break; }
        default: { auto x = f.createBlock(nm, "t"); emit("block", nm, x.id()); break; }
        }
    }
}

// one writer process: opens (or creates) `file`, creates n entities of all kinds, logs the ids
void writer(const std::string &file, bool create, const std::string &proc, long n, const std::string &log, int gate) {
    char go; if (gate >= 0) { if (read(gate, &go, 1) < 0) _exit(9); }
    std::ofstream out(log);
    out << json{{"e", "Start"}, {"p", proc}, {"sec", (long) time(nullptr)}}.dump() << "\n";
    try {
        nix::File f = nix::File::open(file, create ? nix::FileMode::Overwrite : nix::FileMode::ReadWrite);
        createEntities(f, file, proc, n, out, create);
        f.close();
    } catch (const std::exception &e) { out << json{{"e", "Error"}, {"p", proc}, {"what", e.what()}}.dump() << "\n"; }
    out.close();
    _exit(0);
}

// a process that has already created ids forks children WITHOUT exec: the children continue with a copy of the parent's memory
// (whatever generator state the library keeps is duplicated); parent and children go on creating entities (children in own files)
void forker(Ctx &c, const std::string &file, long K, long n, const std::string &log) {
    std::ofstream out(log);
    std::string proc = "p0";
    out << json{{"e", "Start"}, {"p", proc}, {"sec", (long) time(nullptr)}}.dump() << "\n";
    try {
        nix::File f = nix::File::open(file, nix::FileMode::Overwrite);
        createEntities(f, file, proc, n, out, true);
        out.flush();
        std::vector<pid_t> pids;
        for (long k = 0; k < K; k++) {
            pid_t pid = fork();
            if (pid == 0) {
                std::string me = "p0c" + std::to_string(k), myfile = c.path("ids_fork_" + std::to_string(k) + ".nix");
                std::ofstream o2(c.path("ids_fork_" + std::to_string(k) + ".log"));
                o2 << json{{"e", "Fork"}, {"p", me}, {"parent", proc}}.dump() << "\n";
                try { nix::File g = nix::File::open(myfile, nix::FileMode::Overwrite); createEntities(g, myfile, me, n, o2, true); g.close(); }
                catch (const std::exception &e) { o2 << json{{"e", "Error"}, {"p", me}, {"what", e.what()}}.dump() << "\n"; }
                o2.close();
                _exit(0);       // the inherited copy of the parent's open file is dropped without writing
            }
            pids.push_back(pid);
        }
        createEntities(f, file, proc, n, out, false, "x");      // the parent goes on in the same file (second batch, own names)
        for (pid_t pid : pids) { int st; waitpid(pid, &st, 0); }
        f.close();
    } catch (const std::exception &e) { out << json{{"e", "Error"}, {"p", proc}, {"what", e.what()}}.dump() << "\n"; }
    out.close();
    _exit(0);
}

// one process whose threads create entities one after the other in the same file (HDF5 is used serially)
void threader(const std::string &file, long K, long n, const std::string &log) {
    std::ofstream out(log);
    std::string proc = "p0";
    out << json{{"e", "Start"}, {"p", proc}, {"sec", (long) time(nullptr)}}.dump() << "\n";
    try {
        nix::File f = nix::File::open(file, nix::FileMode::Overwrite);
        createEntities(f, file, proc, n, out, true);
        for (long k = 0; k < K; k++) {
            std::string me = "p0t" + std::to_string(k);
            std::string err;
            std::thread th([&] { try { out << json{{"e", "Thread"}, {"p", me}, {"parent", proc}}.dump() << "\n"; createEntities(f, file, me, n, out, false); }
                                 catch (const std::exception &e) { err = e.what(); } });
            th.join();
            if (!err.empty()) out << json{{"e", "Error"}, {"p", me}, {"what", err}}.dump() << "\n";
        }
        createEntities(f, file, proc, n, out, false, "x");
        f.close();
    } catch (const std::exception &e) { out << json{{"e", "Error"}, {"p", proc}, {"what", e.what()}}.dump() << "\n"; }
    out.close();
    _exit(0);
}

// one long-lived process: entity creations of every kind with `raw` direct calls of util::createId() spread between them (the
// generator every creation path uses), so that one execution context draws many thousands of ids
void longRunner(const std::string &file, long n, long raw, const std::string &log) {
    std::ofstream out(log);
    std::string proc = "p0";
    out << json{{"e", "Start"}, {"p", proc}, {"sec", (long) time(nullptr)}}.dump() << "\n";
    try {
        nix::File f = nix::File::open(file, nix::FileMode::Overwrite);
        long batches = 4, per = raw / batches;
        for (long bno = 0; bno < batches; bno++) {
            createEntities(f, file, proc, n / batches, out, bno == 0, bno == 0 ? "" : "y" + std::to_string(bno));
            for (long i = 0; i < per; i++) { std::string id = nix::util::createId();
                out << json{{"e", "CreateId"}, {"p", proc}, {"id", id}, {"kind", "raw"}, {"name", ""}, {"file", file}, {"wellformed", wellFormed(id)}}.dump() << "\n"; }
        }
        f.close();
    } catch (const std::exception &e) { out << json{{"e", "Error"}, {"p", proc}, {"what", e.what()}}.dump() << "\n"; }
    out.close();
    _exit(0);
}

json handle(Ctx &c, const json &rec) {
    std::string sched = rec["schedule"]; long K = rec["procs"], N = rec["ids"];
    std::string trace = rec["trace"];
    std::vector<std::string> logs;
    std::vector<json> events;
    auto collect = [&](const std::string &log) { std::ifstream in(log); std::string ln; while (std::getline(in, ln)) if (!ln.empty()) events.push_back(json::parse(ln)); };
    for (int attempt = 0; attempt < 4; attempt++) {
        events.clear(); logs.clear();
        if (sched == "same_second" || sched == "staggered") {
            int gate[2]; if (pipe(gate) != 0) throw std::runtime_error("pipe");
            std::vector<pid_t> pids;
            for (long p = 0; p < K; p++) {
                std::string log = c.path("ids_" + std::to_string(p) + ".log"); logs.push_back(log);
                pid_t pid = fork();
                if (pid == 0) { close(gate[1]); if (sched == "staggered") { struct timespec ts = {p, 100000000L}; nanosleep(&ts, nullptr); }
                                writer(c.path("ids_" + std::to_string(p) + ".nix"), true, "p" + std::to_string(p), N, log, gate[0]); }
                pids.push_back(pid);
            }
            close(gate[0]);
            // release all writers at the start of a fresh second, so that they seed within the same wall-clock second
            time_t t0 = time(nullptr); while (time(nullptr) == t0) { struct timespec ts = {0, 2000000L}; nanosleep(&ts, nullptr); }
            std::string go((size_t) K, 'g'); if (write(gate[1], go.data(), go.size()) < 0) throw std::runtime_error("write");
            close(gate[1]);
            for (pid_t pid : pids) { int st; waitpid(pid, &st, 0); }
        } else if (sched == "restart" || sched == "shared_file") {
            // short-lived processes one after the other (within the same second where possible); shared_file: all on one file
            for (long p = 0; p < K; p++) {
                std::string log = c.path("ids_" + std::to_string(p) + ".log"); logs.push_back(log);
                std::string file = sched == "shared_file" ? c.path("ids_shared.nix") : c.path("ids_" + std::to_string(p) + ".nix");
                pid_t pid = fork();
                if (pid == 0) writer(file, sched != "shared_file" || p == 0, "p" + std::to_string(p), N, log, -1);
                int st; waitpid(pid, &st, 0);
            }
        }
        else if (sched == "fork" || sched == "threads") {
            std::string log = c.path("ids_main.log"); logs.push_back(log);
            if (sched == "fork") for (long k = 0; k < K; k++) logs.push_back(c.path("ids_fork_" + std::to_string(k) + ".log"));
            pid_t pid = fork();
            if (pid == 0) { if (sched == "fork") forker(c, c.path("ids_main.nix"), K, N, log); else threader(c.path("ids_main.nix"), K, N, log); }
            int st; waitpid(pid, &st, 0);
        }
        else if (sched == "long_run") {
            std::string log = c.path("ids_main.log"); logs.push_back(log);
            pid_t pid = fork();
            if (pid == 0) longRunner(c.path("ids_main.nix"), N, rec.value("raw", 9000L), log);
            int st; waitpid(pid, &st, 0);
        }
        for (auto &l : logs) collect(l);
        if (sched != "same_second") break;
        // the schedule class is only realised if all writers started within one second
        std::set<long> secs; for (auto &e : events) if (e["e"] == "Start") secs.insert(e["sec"].get<long>());
        if (secs.size() == 1) break;
    }
    // re-read: every created named entity is looked up again in a fresh session; its id must be the id issued at creation
    std::vector<json> rereads;
    std::map<std::string, nix::File> files;
    for (auto &e : events) {
        if (e["e"] != "CreateId" || e["name"].get<std::string>().empty()) continue;
        std::string file = e["file"], kind = e["kind"], name = e["name"];
        if (!files.count(file)) files[file] = nix::File::open(file, nix::FileMode::ReadOnly);
        nix::File &f = files[file];
        std::string got;
        try {
            std::string owner = e.value("owner", e["p"].get<std::string>() + "_b");
            if (kind == "block") got = f.getBlock(name).id();
            else if (kind == "section") got = f.getSection(name).id();
            else { nix::Block b = f.getBlock(owner);
                if (kind == "array") got = b.getDataArray(name).id(); else if (kind == "tag") got = b.getTag(name).id(); else if (kind == "mtag") got = b.getMultiTag(name).id();
                else if (kind == "group") got = b.getGroup(name).id(); else if (kind == "source") got = b.getSource(name).id(); else if (kind == "frame") got = b.getDataFrame(name).id(); }
        } catch (const std::exception &ex) { got = std::string("threw: ") + ex.what(); }
        if (!got.empty()) rereads.push_back(json{{"e", "Reread"}, {"p", e["p"]}, {"id", got}, {"created", e["id"]}, {"kind", kind}});
    }
    for (auto &kv : files) kv.second.close();
    std::ofstream out(trace);
    long creates = 0, starts = 0, errors = 0;
    std::set<long> secs;
    for (auto &e : events) { if (e["e"] == "Error") { errors++; continue; } if (e["e"] == "CreateId") creates++; if (e["e"] == "Start") { starts++; secs.insert(e["sec"].get<long>()); } out << e.dump() << "\n"; }
    for (auto &e : rereads) out << e.dump() << "\n";
    out.close();
    json r = errors ? json{{"v", "harness_exception"}, {"what", "a writer process failed"}} : ok();
    r["events"] = (long) events.size() + (long) rereads.size() - errors; r["creates"] = creates; r["starts"] = starts; r["distinct_start_seconds"] = (long) secs.size(); r["rereads"] = (long) rereads.size();
    r["n"] = creates;
    return r;
}
Reg reg("ids", handle);
}
